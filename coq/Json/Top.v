(* C18 - the top rule  json = { SOI ~ value ~ EOI }  and the theorem:
   under Layer S (the documented PEG semantics) the grammar regenerated from json.pest accepts a string (valid UTF-8,
   as every Rust &str is) iff it is a JSON text per RFC 8259, and on acceptance the token forest is tree_top of THE
   document of the text; on every other string the parse terminates with a failure. *)
From Coq Require Import List Arith NArith ZArith Bool Lia String ZifyN ZifyBool.
Import ListNotations.
Require Import PV.Comb.PState PV.Comb.Bytes PV.Comb.Utf8 PV.Comb.Utf8b PV.Iter.Queue PV.Peg.Ast PV.Peg.Spec PV.Peg.SpecFacts.
Require Import PV.gen.JsonGrammar PV.Json.Rfc8259 PV.Json.Recogniser PV.Json.Utf8Facts PV.Json.EvalFacts PV.Json.LexLib PV.Json.Lexical
  PV.Json.ParseLib PV.Json.Structure PV.Json.RfcStructure.

Definition json_body : expr := ESeq (ESeq (EIdent (nm "SOI")) (EIdent (nm "value"))) (EIdent (nm "EOI")).
Lemma rule_json : find_rule json_grammar (nm "json") = Some {| rname := nm "json"; rty := RNormal; rexpr := json_body |}.
Proof. lookup. Qed.

Definition json_rid : name -> nat := rule_id json_grammar.

(* what the parse of w from the rule `json` returns *)
Definition expected (w : list byte) : sres :=
  match rfc_parse w with
  | Some d => SMatch (List.length w) [] (tree_top json_rid (List.length w) d)
  | None => SFail
  end.

Section Top.
Variable uprop : name -> option (N -> bool).
Variable w : list byte.
Hypothesis Vw : valid_utf8 w.
Notation E := (evals json_grammar uprop w).

Lemma json_ok : E NonAtomic true (EIdent (nm "json")) 0 [] (expected w).
Proof.
  assert (A0 : at_ w 0 w) by reflexivity.
  pose proof (ev_soi json_grammar uprop w NonAtomic true 0 []) as Esoi. cbn [Nat.eqb] in Esoi.
  pose proof (skip_ok uprop w true 0 w [] A0) as Sk1. cbn [Nat.add] in Sk1.
  set (w1 := skip_ws w) in *.
  pose proof (at_skip w 0 w w1 A0) as A1. cbn [Nat.add] in A1.
  pose proof (valid_skip_ws w Vw) as V1. fold w1 in V1.
  assert (Hl1 : List.length (skipn w1 w) < S (List.length w)) by (rewrite skipn_length; lia).
  destruct (value_ok uprop w (S (List.length w)) w1 (skipn w1 w) [] Hl1 A1 V1) as [Ev St].
  assert (M : rule_mode (is_special (nm "json")) RNormal NonAtomic true = (true, NonAtomic)) by reflexivity.
  unfold expected, rfc_parse. fold w1.
  destruct (parse_value (S (List.length w)) w1 (skipn w1 w)) as [[d n]|] eqn:Pv.
  - destruct (St d n Pv) as [Hn V2]. rewrite <- skipn_add in V2.
    pose proof (at_skip w w1 (skipn w1 w) n A1) as A2. rewrite <- skipn_add in A2.
    pose proof (skip_ok uprop w true (w1 + n) (skipn (w1 + n) w) [] A2) as Sk2.
    set (w2 := skip_ws (skipn (w1 + n) w)) in *.
    pose proof (ev_eoi json_grammar uprop w NonAtomic true (w1 + n + w2) []) as Eeoi.
    unfold pres in Ev. unfold t_val in Ev.
    destruct (Nat.eqb_spec (w1 + n + w2) (List.length w)) as [El|El].
    + assert (Eb : E NonAtomic true json_body 0 []
               (SMatch (w1 + n + w2) [] (([] ++ [] ++ [tree_of (rule_id json_grammar) d]) ++ [] ++ [Node (rule_id json_grammar (nm "EOI")) None (w1 + n + w2) (w1 + n + w2) []]))).
      { eapply ev_seq_ok; [eapply ev_seq_ok; [exact Esoi|exact Sk1|exact Ev]|exact Sk2|exact Eeoi]. }
      generalize (ev_rule json_grammar uprop w NonAtomic true (nm "json") _ true NonAtomic 0 [] _ eq_refl eq_refl rule_json M Eb).
      unfold wrap. cbn [app]. rewrite El. unfold tree_top, leaf, json_rid. auto.
    + assert (Eb : E NonAtomic true json_body 0 [] SFail).
      { eapply ev_seq_fail_r; [eapply ev_seq_ok; [exact Esoi|exact Sk1|exact Ev]|exact Sk2|exact Eeoi]. }
      exact (ev_rule json_grammar uprop w NonAtomic true (nm "json") _ true NonAtomic 0 [] _ eq_refl eq_refl rule_json M Eb).
  - assert (Eb : E NonAtomic true json_body 0 [] SFail).
    { apply ev_seq_fail_l. eapply ev_seq_fail_r; [exact Esoi|exact Sk1|exact Ev]. }
    exact (ev_rule json_grammar uprop w NonAtomic true (nm "json") _ true NonAtomic 0 [] _ eq_refl eq_refl rule_json M Eb).
Qed.

Lemma expected_definite : expected w <> SFuel.
Proof. unfold expected. destruct (rfc_parse w); discriminate. Qed.

(* every definite outcome of the fuelled evaluation is the expected one, and it is reached *)
Lemma parse_is_expected fuel r : spec_parse json_grammar false uprop w fuel (nm "json") = r -> r <> SFuel -> r = expected w.
Proof. intros H Hr. exact (evals_eval json_grammar uprop w _ _ _ _ _ _ fuel r json_ok H Hr). Qed.
Lemma parse_terminates : exists fuel, spec_parse json_grammar false uprop w fuel (nm "json") = expected w.
Proof. destruct json_ok as [f0 H]. exists f0. apply H. lia. Qed.

End Top.

(* ---- the property ---- *)
Theorem json_grammar_is_rfc8259 : forall (uprop : name -> option (N -> bool)) (w : list byte), valid_utf8 w ->
  (* acceptance = RFC 8259 *)
  ((exists p sg f fuel, spec_parse json_grammar false uprop w fuel (nm "json") = SMatch p sg f) <-> json_text w) /\
  (* on acceptance: the whole input, and the token tree of the unique document *)
  (forall p sg f fuel, spec_parse json_grammar false uprop w fuel (nm "json") = SMatch p sg f ->
     exists d, json_doc w d /\ (forall d', json_doc w d' -> d' = d) /\
               p = List.length w /\ sg = [] /\ f = tree_top json_rid (List.length w) d) /\
  (* rejection is definite: no amount of fuel turns a non-JSON text into a match, and the parse fails in finite time *)
  (~ json_text w -> (forall fuel p sg f, spec_parse json_grammar false uprop w fuel (nm "json") <> SMatch p sg f) /\
                    exists fuel, spec_parse json_grammar false uprop w fuel (nm "json") = SFail).
Proof.
  intros uprop w Vw.
  assert (Acc : forall p sg f fuel, spec_parse json_grammar false uprop w fuel (nm "json") = SMatch p sg f ->
            exists d, rfc_parse w = Some d /\ p = List.length w /\ sg = [] /\ f = tree_top json_rid (List.length w) d).
  { intros p sg f fuel H. pose proof (parse_is_expected uprop w Vw fuel _ H ltac:(discriminate)) as Ex.
    unfold expected in Ex. destruct (rfc_parse w) as [d|]; [|discriminate]. injection Ex as -> -> ->. now exists d. }
  split; [|split].
  - split.
    + intros (p & sg & f & fuel & H). destruct (Acc _ _ _ _ H) as (d & Hd & _). exists d. now apply rfc_parse_sound.
    + intros [d J]. apply rfc_parse_complete in J. destruct (parse_terminates uprop w Vw) as [fuel H].
      unfold expected in H. rewrite J in H. eauto.
  - intros p sg f fuel H. destruct (Acc _ _ _ _ H) as (d & Hd & -> & -> & ->). exists d.
    split; [now apply rfc_parse_sound|]. split; [|auto]. intros d' J'. apply rfc_parse_complete in J'. congruence.
  - intros NJ. split.
    + intros fuel p sg f H. apply NJ. destruct (Acc _ _ _ _ H) as (d & Hd & _). exists d. now apply rfc_parse_sound.
    + destruct (parse_terminates uprop w Vw) as [fuel H]. exists fuel. rewrite H. unfold expected.
      destruct (rfc_parse w) as [d|] eqn:Ed; [|reflexivity]. exfalso. apply NJ. exists d. now apply rfc_parse_sound.
Qed.
