(* C18 - a small big-step toolkit over Layer S (Peg/Spec.v), generic in the grammar.
   `evals a emit e p sg r` : with enough fuel, `eval` of e at (p, sg) returns the definite result r
   (r is SMatch or SFail in every use).  One lemma per construct of the grammar language that json.pest uses;
   they are what "symbolic execution" of a concrete grammar is made of.  Fuel monotonicity comes from
   Peg/SpecFacts.v.  grammar-extras is off (default features, as pest_grammars is built).               *)
From Coq Require Import List Arith NArith ZArith Bool Lia String.
Import ListNotations.
Require Import PV.Comb.PState PV.Comb.Bytes PV.Iter.Queue PV.Peg.Ast PV.Peg.Spec PV.Peg.SpecFacts.

Section Evals.
Variable G : grammar.
Variable uprop : name -> option (N -> bool).
Variable w : list byte.
Notation ev := (eval G false uprop w).

Definition evals (a : atom) (emit : bool) (e : expr) (p : nat) (sg : list str) (r : sres) : Prop :=
  exists f0, forall f, f0 <= f -> ev f a emit e p sg = r.
(* the implicit whitespace between sequence elements / repetition units *)
Definition skips (a : atom) (emit : bool) (p : nat) (sg : list str) (r : sres) : Prop :=
  exists f0, forall f, f0 <= f -> skip_with G (ev f) f a emit p sg = r.
(* iteration of a fuel-indexed unit *)
Definition units (U : nat -> nat -> list str -> sres) (p : nat) (sg : list str) (r : sres) : Prop :=
  exists f0, forall f, f0 <= f -> U f p sg = r.
Definition loops (U : nat -> nat -> list str -> sres) (p : nat) (sg : list str) (acc : list tree) (r : sres) : Prop :=
  exists f0, forall n f, f0 <= n -> f0 <= f -> loop n (U f) p sg acc = r.
Definition rep_U (a : atom) (emit : bool) (x : expr) : nat -> nat -> list str -> sres :=
  fun f => rep_unit G (ev f) f a emit x.
Definition reps (a : atom) (emit : bool) (x : expr) := loops (rep_U a emit x).
Definition many_U (a : atom) (emit : bool) (n : name) : nat -> nat -> list str -> sres :=
  fun f p sg => ev f a emit (EIdent n) p sg.

(* ---- determinism and the link with `exists fuel` ---- *)
Lemma evals_det a emit e p sg r1 r2 : evals a emit e p sg r1 -> evals a emit e p sg r2 -> r1 = r2.
Proof.
  intros [f1 H1] [f2 H2]. rewrite <- (H1 (max f1 f2)) by lia. rewrite <- (H2 (max f1 f2)) by lia. reflexivity.
Qed.

Lemma evals_of_eval f a emit e p sg r : ev f a emit e p sg = r -> r <> SFuel -> evals a emit e p sg r.
Proof. intros H Hr. exists f. intros f' Hf. exact (eval_mono G false uprop w f f' Hf _ _ _ _ _ _ H Hr). Qed.

Lemma evals_eval a emit e p sg r f r' : evals a emit e p sg r -> ev f a emit e p sg = r' -> r' <> SFuel -> r' = r.
Proof. intros H1 H2 Hr. apply (evals_det a emit e p sg); [now apply (evals_of_eval f)|exact H1]. Qed.

(* ---- loops ---- *)
Lemma loops_stop U p sg acc : units U p sg SFail -> loops U p sg acc (SMatch p sg acc).
Proof.
  intros [f0 H]. exists (S f0). intros n f Hn Hf. destruct n as [|n]; [lia|]. cbn [loop]. rewrite H by lia. reflexivity.
Qed.
Lemma loops_step U p sg acc p1 sg1 f1 r :
  units U p sg (SMatch p1 sg1 f1) -> loops U p1 sg1 (acc ++ f1) r -> loops U p sg acc r.
Proof.
  intros [f0 H] [g0 H2]. exists (S (max f0 g0)). intros n f Hn Hf. destruct n as [|n]; [lia|]. cbn [loop].
  rewrite H by lia. apply H2; lia.
Qed.

(* ---- terminals ---- *)
Lemma ev_str a emit s p sg :
  evals a emit (EStr s) p sg (match lit w s p with Some q => SMatch q sg [] | None => SFail end).
Proof. exists 1. intros f Hf. destruct f as [|f]; [lia|]. reflexivity. Qed.
Lemma ev_range a emit lo hi p sg : evals a emit (ERange lo hi) p sg (one_char w (in_range lo hi) p sg).
Proof. exists 1. intros f Hf. destruct f as [|f]; [lia|]. reflexivity. Qed.

(* ---- sequence ---- *)
Lemma ev_seq_ok a emit l r p sg p1 sg1 f1 p2 sg2 f2 p3 sg3 f3 :
  evals a emit l p sg (SMatch p1 sg1 f1) -> skips a emit p1 sg1 (SMatch p2 sg2 f2) -> evals a emit r p2 sg2 (SMatch p3 sg3 f3) ->
  evals a emit (ESeq l r) p sg (SMatch p3 sg3 (f1 ++ f2 ++ f3)).
Proof.
  intros [x1 H1] [x2 H2] [x3 H3]. exists (S (max x1 (max x2 x3))). intros f Hf. destruct f as [|f]; [lia|].
  cbn [eval]. rewrite H1 by lia. rewrite H2 by lia. rewrite H3 by lia. reflexivity.
Qed.
Lemma ev_seq_fail_l a emit l r p sg : evals a emit l p sg SFail -> evals a emit (ESeq l r) p sg SFail.
Proof.
  intros [x1 H1]. exists (S x1). intros f Hf. destruct f as [|f]; [lia|]. cbn [eval]. rewrite H1 by lia. reflexivity.
Qed.
Lemma ev_seq_fail_r a emit l r p sg p1 sg1 f1 p2 sg2 f2 :
  evals a emit l p sg (SMatch p1 sg1 f1) -> skips a emit p1 sg1 (SMatch p2 sg2 f2) -> evals a emit r p2 sg2 SFail ->
  evals a emit (ESeq l r) p sg SFail.
Proof.
  intros [x1 H1] [x2 H2] [x3 H3]. exists (S (max x1 (max x2 x3))). intros f Hf. destruct f as [|f]; [lia|].
  cbn [eval]. rewrite H1 by lia. rewrite H2 by lia. rewrite H3 by lia. reflexivity.
Qed.

(* ---- ordered choice, option ---- *)
Lemma ev_choice_l a emit l r p sg p1 sg1 f1 :
  evals a emit l p sg (SMatch p1 sg1 f1) -> evals a emit (EChoice l r) p sg (SMatch p1 sg1 f1).
Proof.
  intros [x1 H1]. exists (S x1). intros f Hf. destruct f as [|f]; [lia|]. cbn [eval]. rewrite H1 by lia. reflexivity.
Qed.
Lemma ev_choice_r a emit l r p sg res :
  evals a emit l p sg SFail -> evals a emit r p sg res -> evals a emit (EChoice l r) p sg res.
Proof.
  intros [x1 H1] [x2 H2]. exists (S (max x1 x2)). intros f Hf. destruct f as [|f]; [lia|]. cbn [eval].
  rewrite H1 by lia. apply H2; lia.
Qed.
Lemma ev_opt_some a emit x p sg p1 sg1 f1 :
  evals a emit x p sg (SMatch p1 sg1 f1) -> evals a emit (EOpt x) p sg (SMatch p1 sg1 f1).
Proof.
  intros [x1 H1]. exists (S x1). intros f Hf. destruct f as [|f]; [lia|]. cbn [eval]. rewrite H1 by lia. reflexivity.
Qed.
Lemma ev_opt_none a emit x p sg : evals a emit x p sg SFail -> evals a emit (EOpt x) p sg (SMatch p sg []).
Proof.
  intros [x1 H1]. exists (S x1). intros f Hf. destruct f as [|f]; [lia|]. cbn [eval]. rewrite H1 by lia. reflexivity.
Qed.

(* ---- negative predicate (evaluated with emit = false) ---- *)
Lemma ev_neg_ok a emit x p sg : evals a false x p sg SFail -> evals a emit (ENegPred x) p sg (SMatch p sg []).
Proof.
  intros [x1 H1]. exists (S x1). intros f Hf. destruct f as [|f]; [lia|]. cbn [eval]. rewrite H1 by lia. reflexivity.
Qed.
Lemma ev_neg_fail a emit x p sg p1 sg1 f1 : evals a false x p sg (SMatch p1 sg1 f1) -> evals a emit (ENegPred x) p sg SFail.
Proof.
  intros [x1 H1]. exists (S x1). intros f Hf. destruct f as [|f]; [lia|]. cbn [eval]. rewrite H1 by lia. reflexivity.
Qed.

(* ---- repetition ---- *)
Lemma rep_unit_ok a emit x p sg p1 sg1 f1 p2 sg2 f2 :
  skips a emit p sg (SMatch p1 sg1 f1) -> evals a emit x p1 sg1 (SMatch p2 sg2 f2) ->
  units (rep_U a emit x) p sg (SMatch p2 sg2 (f1 ++ f2)).
Proof.
  intros [x1 H1] [x2 H2]. exists (max x1 x2). intros f Hf. unfold rep_U, rep_unit. rewrite H1 by lia. rewrite H2 by lia. reflexivity.
Qed.
Lemma rep_unit_fail a emit x p sg p1 sg1 f1 :
  skips a emit p sg (SMatch p1 sg1 f1) -> evals a emit x p1 sg1 SFail -> units (rep_U a emit x) p sg SFail.
Proof.
  intros [x1 H1] [x2 H2]. exists (max x1 x2). intros f Hf. unfold rep_U, rep_unit. rewrite H1 by lia. rewrite H2 by lia. reflexivity.
Qed.
Lemma ev_rep_none a emit x p sg : evals a emit x p sg SFail -> evals a emit (ERep x) p sg (SMatch p sg []).
Proof.
  intros [x1 H1]. exists (S x1). intros f Hf. destruct f as [|f]; [lia|]. cbn [eval]. rewrite H1 by lia. reflexivity.
Qed.
Lemma ev_rep_some a emit x p sg p1 sg1 f1 r :
  evals a emit x p sg (SMatch p1 sg1 f1) -> reps a emit x p1 sg1 f1 r -> evals a emit (ERep x) p sg r.
Proof.
  intros [x1 H1] [x2 H2]. exists (S (max x1 x2)). intros f Hf. destruct f as [|f]; [lia|]. cbn [eval]. rewrite H1 by lia.
  unfold rep_from_with. apply H2; lia.
Qed.
(* extras = false: e+ is e ~ e* *)
Lemma ev_rep_once a emit x p sg r : evals a emit (ESeq x (ERep x)) p sg r -> evals a emit (ERepOnce x) p sg r.
Proof.
  intros [x1 H1]. exists (S x1). intros f Hf. destruct f as [|f]; [lia|]. cbn [eval]. apply H1; lia.
Qed.
Lemma ev_rep_exact a emit x n u p sg r :
  unroll_node false (ERepExact x n) = Some u -> evals a emit u p sg r -> evals a emit (ERepExact x n) p sg r.
Proof.
  intros Hu [x1 H1]. exists (S x1). intros f Hf. destruct f as [|f]; [lia|]. cbn [eval]. rewrite Hu. apply H1; lia.
Qed.

(* ---- SOI / EOI ---- *)
Lemma ev_soi a emit p sg : evals a emit (EIdent (nm "SOI")) p sg (if Nat.eqb p 0 then SMatch p sg [] else SFail).
Proof. exists 1. intros f Hf. destruct f as [|f]; [lia|]. reflexivity. Qed.
Lemma ev_eoi a emit p sg :
  evals a emit (EIdent (nm "EOI")) p sg
    (if Nat.eqb p (List.length w) then SMatch p sg (if tok a emit then [Node (rule_id G (nm "EOI")) None p p []] else []) else SFail).
Proof. exists 1. intros f Hf. destruct f as [|f]; [lia|]. reflexivity. Qed.

(* ---- identifiers: single-character built-ins and user rules ---- *)
Definition reserved (n : name) : bool :=
  str_eqb n (nm "SOI") || str_eqb n (nm "EOI") || str_eqb n (nm "PEEK") || str_eqb n (nm "POP") || str_eqb n (nm "DROP")
  || str_eqb n (nm "PEEK_ALL") || str_eqb n (nm "POP_ALL") || str_eqb n (nm "NEWLINE").

Lemma ev_ident_unfold f a emit n p sg : reserved n = false ->
  ev (S f) a emit (EIdent n) p sg =
  match ascii_builtin n with
  | Some ok => one_char w ok p sg
  | None =>
    match find_rule G n with
    | Some r =>
        let '(tk, a2) := rule_mode (is_special n) (rty r) a emit in
        match ev f a2 emit (rexpr r) p sg with
        | SMatch q sg2 f2 => SMatch q sg2 (if tk then [Node (rule_id G n) None p q f2] else f2)
        | r => r
        end
    | None => match uprop n with Some ok => one_char w ok p sg | None => SFail end
    end
  end.
Proof.
  unfold reserved. intros H.
  repeat (apply orb_false_elim in H; destruct H as [H ?]).
  cbn [eval].
  repeat match goal with E : str_eqb n ?s = false |- _ => rewrite E; clear E end.
  reflexivity.
Qed.

Lemma ev_builtin a emit n ok p sg : reserved n = false -> ascii_builtin n = Some ok ->
  evals a emit (EIdent n) p sg (one_char w ok p sg).
Proof.
  intros Hr Ha. exists 1. intros f Hf. destruct f as [|f]; [lia|]. rewrite ev_ident_unfold by exact Hr. rewrite Ha. reflexivity.
Qed.

Definition wrap (tk : bool) (id p : nat) (r : sres) : sres :=
  match r with
  | SMatch q sg2 f2 => SMatch q sg2 (if tk then [Node id None p q f2] else f2)
  | r => r
  end.
Lemma ev_rule a emit n rl tk a2 p sg r :
  reserved n = false -> ascii_builtin n = None -> find_rule G n = Some rl ->
  rule_mode (is_special n) (rty rl) a emit = (tk, a2) ->
  evals a2 emit (rexpr rl) p sg r ->
  evals a emit (EIdent n) p sg (wrap tk (rule_id G n) p r).
Proof.
  intros Hr Ha Hf Hm [x1 H1]. exists (S x1). intros f Hx. destruct f as [|f]; [lia|].
  rewrite ev_ident_unfold by exact Hr. rewrite Ha, Hf, Hm. rewrite H1 by lia. destruct r; reflexivity.
Qed.

(* ---- implicit whitespace ---- *)
Lemma skips_atomic a emit p sg : atom_eqb a NonAtomic = false -> skips a emit p sg (SMatch p sg []).
Proof. intros H. exists 0. intros f _. unfold skip_with. rewrite H. reflexivity. Qed.
(* a grammar with WHITESPACE and without COMMENT *)
Lemma skips_ws emit p sg r :
  has_rule G (nm "WHITESPACE") = true -> has_rule G (nm "COMMENT") = false ->
  loops (many_U NonAtomic emit (nm "WHITESPACE")) p sg [] r -> skips NonAtomic emit p sg r.
Proof.
  intros H1 H2 [x H]. exists x. intros f Hf. unfold skip_with. rewrite H1, H2. cbn [atom_eqb negb]. unfold many_with.
  apply (H f f); lia.
Qed.

(* in atomic mode ( no implicit whitespace ) e* is the plain iteration of e from the start *)
Lemma ev_rep_atomic a emit x p sg r :
  atom_eqb a NonAtomic = false -> reps a emit x p sg [] r -> evals a emit (ERep x) p sg r.
Proof.
  intros Ha [x1 H1]. exists (S x1). intros f Hf. destruct f as [|f]; [lia|].
  rewrite <- (H1 (S f) f) by lia.
  assert (E : rep_U a emit x f p sg = ev f a emit x p sg).
  { unfold rep_U, rep_unit, skip_with. rewrite Ha. cbn [negb app]. destruct (ev f a emit x p sg); reflexivity. }
  cbn [eval loop]. rewrite E. unfold rep_from_with. destruct (ev f a emit x p sg); reflexivity.
Qed.

End Evals.
