(* C18 - the scanners of Recogniser.v are sound and complete for the token relations of Rfc8259.v
   (ws, jnumber, jstring).  Pure list reasoning, no PEG.
   sound:    scan l = Some n  ->  l = s ++ r, |s| = n, s is a token
   complete: s is a token, and what follows s cannot continue it  ->  scan (s ++ tl) = Some |s|          *)
From Coq Require Import List Arith NArith Bool Lia ZifyN ZifyBool.
Import ListNotations.
Require Import PV.Comb.PState PV.Comb.Bytes PV.Comb.Utf8 PV.Comb.Utf8b PV.Json.Rfc8259 PV.Json.Recogniser PV.Json.Utf8Facts.
Local Open Scope N_scope.
Local Close Scope N_scope.

(* l = s ++ r with |s| = n *)
Definition split_at (l : list byte) (n : nat) (s r : list byte) : Prop := l = s ++ r /\ length s = n.
Lemma split_skipn l n s r : split_at l n s r -> skipn n l = r.
Proof. intros [-> <-]. apply skipn_app_exact. Qed.
Lemma split_le l n s r : split_at l n s r -> n <= length l.
Proof. intros [-> <-]. rewrite app_length. lia. Qed.
Lemma split_0 l : split_at l 0 [] l.
Proof. split; reflexivity. Qed.
Lemma split_app l n1 s1 r1 n2 s2 r2 : split_at l n1 s1 r1 -> split_at r1 n2 s2 r2 -> split_at l (n1 + n2) (s1 ++ s2) r2.
Proof. intros [-> <-] [-> <-]. split; [now rewrite app_assoc|now rewrite app_length]. Qed.
Lemma split_cons b l n s r : split_at l n s r -> split_at (b :: l) (S n) (b :: s) r.
Proof. intros [-> <-]. split; reflexivity. Qed.

Lemma head_is_true b l : head_is b l = true -> exists r, l = b :: r.
Proof. destruct l as [|x r]; [discriminate|]. rewrite head_is_cons. intros H. apply N.eqb_eq in H. subst. now exists r. Qed.
Lemma head_among_true bs l : head_among bs l = true -> exists x r, l = x :: r /\ In x bs.
Proof.
  destruct l as [|x r]; [rewrite head_among_nil; discriminate|].
  rewrite head_among_cons. intros H. apply existsb_exists in H. destruct H as (y & Hy & E). apply N.eqb_eq in E. subst y. now exists x, r.
Qed.
Lemma head_in_true ok l : head_in ok l = true -> exists x r, l = x :: r /\ ok x = true.
Proof. destruct l as [|x r]; [discriminate|]. intros H. now exists x, r. Qed.

(* ---- ws ---- *)
Lemma is_wsb_spec b : is_wsb b = true <-> is_ws b.
Proof. unfold is_wsb, ws_bytes, is_ws. cbn [existsb]. lia. Qed.
Lemma skip_ws_sound l : exists s r, split_at l (skip_ws l) s r /\ ws s.
Proof.
  induction l as [|b l (s & r & Sp & W)]; [exists [], []; split; [apply split_0|constructor]|].
  cbn [skip_ws]. destruct (is_wsb b) eqn:B.
  - exists (b :: s), r. split; [now apply split_cons|]. constructor; [now apply is_wsb_spec|exact W].
  - exists [], (b :: l). split; [apply split_0|constructor].
Qed.
Lemma skip_ws_complete s tl : ws s -> head_in is_wsb tl = false -> skip_ws (s ++ tl) = length s.
Proof.
  intros W H. induction W as [|b s Hb W IH].
  - destruct tl as [|x tl]; [reflexivity|]. cbn in *. now rewrite H.
  - cbn [app skip_ws length]. apply is_wsb_spec in Hb. now rewrite Hb, IH.
Qed.

(* ---- digits ---- *)
Lemma is_digitb_spec b : is_digitb b = true <-> is_digit b.
Proof. unfold is_digitb, in_rangeb, is_digit. lia. Qed.
Lemma scan_digits_sound l : exists s r, split_at l (scan_digits l) s r /\ digits s.
Proof.
  induction l as [|b l (s & r & Sp & W)]; [exists [], []; split; [apply split_0|constructor]|].
  cbn [scan_digits]. destruct (is_digitb b) eqn:B.
  - exists (b :: s), r. split; [now apply split_cons|]. constructor; [now apply is_digitb_spec|exact W].
  - exists [], (b :: l). split; [apply split_0|constructor].
Qed.
Lemma scan_digits_complete s tl : digits s -> head_in is_digitb tl = false -> scan_digits (s ++ tl) = length s.
Proof.
  intros W H. induction W as [|b s Hb W IH].
  - destruct tl as [|x tl]; [reflexivity|]. cbn in *. now rewrite H.
  - cbn [app scan_digits length]. apply is_digitb_spec in Hb. now rewrite Hb, IH.
Qed.
Lemma scan_digits1_sound l n : scan_digits1 l = Some n -> exists s r, split_at l n s r /\ digits1 s.
Proof.
  unfold scan_digits1. destruct (head_in is_digitb l) eqn:H; [|discriminate]. intros [= <-].
  destruct (head_in_true _ _ H) as (x & t & -> & Hx). cbn [List.tl]. destruct (scan_digits_sound t) as (s & r & Sp & D).
  exists (x :: s), r. split; [now apply split_cons|]. split; [discriminate|]. constructor; [now apply is_digitb_spec|exact D].
Qed.
Lemma scan_digits1_complete s tl : digits1 s -> head_in is_digitb tl = false -> scan_digits1 (s ++ tl) = Some (length s).
Proof.
  intros [N D] H. destruct s as [|b s]; [contradiction|]. inversion D as [|? ? Hb D']; subst.
  unfold scan_digits1. cbn [app head_in List.tl]. apply is_digitb_spec in Hb. rewrite Hb. now rewrite scan_digits_complete.
Qed.

(* ---- int ---- *)
Lemma scan_int_sound l n : scan_int l = Some n -> exists s r, split_at l n s r /\ jint s.
Proof.
  unfold scan_int. destruct (head_is 48 l) eqn:Z.
  - intros [= <-]. destruct (head_is_true _ _ Z) as [t ->]. exists [48%N], t. split; [split; reflexivity|constructor].
  - destruct (head_in (in_rangeb 49 57) l) eqn:H; [|discriminate]. intros [= <-].
    destruct (head_in_true _ _ H) as (x & t & -> & Hx). cbn [List.tl]. destruct (scan_digits_sound t) as (s & r & Sp & D).
    exists (x :: s), r. split; [now apply split_cons|]. constructor; [|exact D]. unfold in_rangeb in Hx. unfold is_digit19. lia.
Qed.
Lemma scan_int_complete s tl : jint s -> head_in is_digitb tl = false -> scan_int (s ++ tl) = Some (length s).
Proof.
  intros J H. unfold scan_int. destruct J as [|d ds Hd D].
  - reflexivity.
  - cbn [app]. rewrite head_is_cons. unfold is_digit19 in Hd. destruct (N.eqb_spec 48 d); [lia|].
    cbn [head_in List.tl]. unfold in_rangeb. replace ((49 <=? d)%N && (d <=? 57)%N) with true by lia.
    now rewrite scan_digits_complete.
Qed.

(* ---- exp ---- *)
Lemma scan_exp_sound l n : scan_exp l = Some n -> exists s r, split_at l n s r /\ jexp s.
Proof.
  unfold scan_exp. destruct (head_among [69; 101]%N l) eqn:H; [|discriminate].
  destruct (head_among_true _ _ H) as (e & t & -> & He). cbn [List.tl]. rewrite skipn_cons.
  destruct (scan_digits1 (skipn (scan_sign t) t)) as [k|] eqn:D; [|discriminate]. intros [= <-].
  unfold scan_sign in *. destruct (head_among [43; 45]%N t) eqn:S.
  - destruct (head_among_true _ _ S) as (g & u & -> & Hg). rewrite skipn_cons, skipn_O in D.
    destruct (scan_digits1_sound _ _ D) as (s & r & Sp & D1). exists (e :: [g] ++ s), r. split.
    + apply split_cons. apply (split_cons g u k s r Sp).
    + constructor; [cbn in He; lia|right; cbn in Hg; destruct Hg as [<-|[<-|[]]]; auto|exact D1].
  - rewrite skipn_O in D. destruct (scan_digits1_sound _ _ D) as (s & r & Sp & D1). exists (e :: [] ++ s), r. split.
    + apply split_cons. exact Sp.
    + constructor; [cbn in He; lia|now left|exact D1].
Qed.
Lemma digits1_head s tl : digits1 s -> exists b t, s ++ tl = b :: t /\ is_digit b.
Proof. intros [N D]. destruct s as [|b s]; [contradiction|]. inversion D; subst. now exists b, (s ++ tl). Qed.
Lemma scan_exp_complete s tl : jexp s -> head_in is_digitb tl = false -> scan_exp (s ++ tl) = Some (length s).
Proof.
  intros J H. destruct J as [e sign ds He Hs D]. unfold scan_exp. cbn [app]. rewrite head_among_cons.
  replace (existsb (N.eqb e) [69; 101]%N) with true by (cbn [existsb]; lia). cbn [List.tl]. rewrite skipn_cons.
  unfold scan_sign. destruct Hs as [->|[->| ->]]; cbn [app].
  - destruct (digits1_head ds tl D) as (b & t & E & Hb). rewrite E, head_among_cons.
    replace (existsb (N.eqb b) [43; 45]%N) with false by (unfold is_digit in Hb; cbn [existsb]; lia).
    rewrite skipn_O, <- E, (scan_digits1_complete ds tl D H). cbn [length]. reflexivity.
  - rewrite head_among_cons. cbn [existsb]. replace ((45 =? 43)%N || ((45 =? 45)%N || false)) with true by reflexivity.
    rewrite skipn_cons, skipn_O, (scan_digits1_complete ds tl D H). cbn [length]. reflexivity.
  - rewrite head_among_cons. cbn [existsb]. replace ((43 =? 43)%N || ((43 =? 45)%N || false)) with true by reflexivity.
    rewrite skipn_cons, skipn_O, (scan_digits1_complete ds tl D H). cbn [length]. reflexivity.
Qed.

(* ---- [ frac ] [ exp ] ---- *)
Lemma scan_opt_exp_sound l : exists s r, split_at l (scan_opt (scan_exp l)) s r /\ opt jexp s.
Proof.
  destruct (scan_exp l) as [n|] eqn:E; cbn [scan_opt].
  - destruct (scan_exp_sound _ _ E) as (s & r & Sp & J). exists s, r. split; [exact Sp|now right].
  - exists [], l. split; [apply split_0|now left].
Qed.
Lemma scan_frac_sound l n : scan_frac l = Some n -> exists f e r, split_at l n (f ++ e) r /\ jfrac f /\ opt jexp e.
Proof.
  unfold scan_frac. destruct (head_is 46 l) eqn:H; [|discriminate]. destruct (head_is_true _ _ H) as [t ->]. cbn [List.tl].
  destruct (scan_digits1 t) as [k|] eqn:D; [|discriminate]. intros [= <-].
  destruct (scan_digits1_sound _ _ D) as (s & r & Sp & D1). cbn [Nat.add]. rewrite skipn_cons, (split_skipn _ _ _ _ Sp).
  destruct (scan_opt_exp_sound r) as (e & r' & Sp' & Je).
  exists (46%N :: s), e, r'. split; [|split; [now constructor|exact Je]].
  change ((46%N :: s) ++ e) with (46%N :: (s ++ e)). apply split_cons. exact (split_app _ _ _ _ _ _ _ Sp Sp').
Qed.
Lemma scan_tail_sound l : exists f e r, split_at l (scan_tail l) (f ++ e) r /\ opt jfrac f /\ opt jexp e.
Proof.
  unfold scan_tail. destruct (scan_frac l) as [n|] eqn:F.
  - destruct (scan_frac_sound _ _ F) as (f & e & r & Sp & Jf & Je). exists f, e, r. split; [exact Sp|split; [now right|exact Je]].
  - destruct (scan_opt_exp_sound l) as (e & r & Sp & Je). exists [], e, r. split; [exact Sp|split; [now left|exact Je]].
Qed.

(* what may follow a value: nothing, whitespace, or one of , ] } *)
Definition is_delimb (b : byte) : bool := is_wsb b || N.eqb b 44 || N.eqb b 93 || N.eqb b 125.
Definition delim (tl : list byte) : Prop := match tl with [] => True | b :: _ => is_delimb b = true end.
Lemma delim_facts tl : delim tl ->
  head_in is_digitb tl = false /\ head_is 46 tl = false /\ head_among [69; 101]%N tl = false.
Proof.
  destruct tl as [|b t]; [intros _; repeat split; reflexivity|]. cbn [delim head_in]. rewrite head_is_cons, head_among_cons.
  unfold is_delimb, is_wsb, ws_bytes, is_digitb, in_rangeb. cbn [existsb]. lia.
Qed.

Lemma scan_tail_complete f e tl : opt jfrac f -> opt jexp e -> delim tl -> scan_tail (f ++ e ++ tl) = length f + length e.
Proof.
  intros Jf Je D. destruct (delim_facts tl D) as (Hd & Hp & He).
  assert (Ee : scan_opt (scan_exp (e ++ tl)) = length e).
  { destruct Je as [->|Je]; [|now rewrite (scan_exp_complete e tl Je Hd)]. cbn [app]. unfold scan_exp. now rewrite He. }
  assert (Fe : scan_frac (e ++ tl) = None).
  { unfold scan_frac. destruct Je as [->|Je]; [cbn [app]; now rewrite Hp|]. destruct Je. cbn [app]. rewrite head_is_cons.
    destruct (N.eqb_spec 46 e); [lia|reflexivity]. }
  unfold scan_tail. destruct Jf as [->|Jf].
  - cbn [app length]. now rewrite Fe, Ee.
  - destruct Jf as [ds D1]. unfold scan_frac. cbn [app]. rewrite head_is_cons, N.eqb_refl. cbn [List.tl].
    assert (Hde : head_in is_digitb (e ++ tl) = false).
    { destruct Je as [->|Je]; [exact Hd|]. destruct Je as [x ? ? Hx]. cbn [app head_in]. unfold is_digitb, in_rangeb. lia. }
    rewrite (scan_digits1_complete ds (e ++ tl) D1 Hde).
    cbn [Nat.add]. rewrite skipn_cons, skipn_app_exact, Ee. cbn [length]. lia.
Qed.

(* ---- number ---- *)
Lemma scan_number_sound l n : scan_number l = Some n -> exists s r, split_at l n s r /\ jnumber s.
Proof.
  unfold scan_number. destruct (head_is 45 l) eqn:M.
  - destruct (head_is_true _ _ M) as [t ->]. rewrite skipn_cons, skipn_O.
    destruct (scan_int t) as [i|] eqn:I; [|discriminate]. intros [= <-].
    destruct (scan_int_sound _ _ I) as (si & r & Sp & Ji). cbn [Nat.add]. rewrite skipn_cons, (split_skipn _ _ _ _ Sp).
    destruct (scan_tail_sound r) as (f & e & r' & Sp' & Jf & Je).
    exists (45%N :: si ++ f ++ e), r'. split.
    + apply split_cons. exact (split_app _ _ _ _ _ _ _ Sp Sp').
    + exists [45%N], si, f, e. repeat split; auto. now right.
  - rewrite skipn_O. destruct (scan_int l) as [i|] eqn:I; [|discriminate]. intros [= <-].
    destruct (scan_int_sound _ _ I) as (si & r & Sp & Ji). cbn [Nat.add]. rewrite (split_skipn _ _ _ _ Sp).
    destruct (scan_tail_sound r) as (f & e & r' & Sp' & Jf & Je).
    exists (si ++ f ++ e), r'. split; [exact (split_app _ _ _ _ _ _ _ Sp Sp')|].
    exists [], si, f, e. repeat split; auto. now left.
Qed.
Lemma jint_head i tl : jint i -> exists b t, i ++ tl = b :: t /\ is_digit b.
Proof. intros [|d ds Hd _]; eexists; eexists; (split; [reflexivity|]); unfold is_digit, is_digit19 in *; lia. Qed.
Lemma scan_number_complete s tl : jnumber s -> delim tl -> scan_number (s ++ tl) = Some (length s).
Proof.
  intros (m & i & f & e & -> & Jm & Ji & Jf & Je) D.
  assert (Hfe : head_in is_digitb (f ++ e ++ tl) = false).
  { destruct Jf as [->|[ds _]]; [|reflexivity]. destruct Je as [->|[x ? ? Hx]]; [apply (delim_facts tl D)|].
    cbn [app head_in]. unfold is_digitb, in_rangeb. lia. }
  unfold scan_number. rewrite <- !app_assoc. destruct Jm as [->| <-]; cbn [app].
  - destruct (jint_head i (f ++ e ++ tl) Ji) as (b & t & E & Hb). rewrite E, head_is_cons.
    replace (N.eqb 45 b) with false by (unfold is_digit in Hb; lia). rewrite skipn_O, <- E.
    rewrite (scan_int_complete i _ Ji Hfe). cbn [Nat.add]. rewrite skipn_app_exact, (scan_tail_complete f e tl Jf Je D).
    rewrite !app_length. f_equal; lia.
  - rewrite head_is_cons, N.eqb_refl. rewrite skipn_cons, skipn_O.
    rewrite (scan_int_complete i _ Ji Hfe). cbn [Nat.add]. rewrite skipn_cons, skipn_app_exact, (scan_tail_complete f e tl Jf Je D).
    cbn [length]. rewrite !app_length. f_equal; lia.
Qed.
