(* C18 - scanners: a small compositional library that relates expressions evaluated in ATOMIC mode (the interior of
   an @ rule: no implicit whitespace, no nodes) to byte-level scanning functions  list byte -> option nat.

   lexb B e sc : on every valid UTF-8 suffix l of the input of length <= B, at its offset p, the expression e
                 (Atomic, any emit, any stack) matches exactly the first n bytes when sc l = Some n and fails when
                 sc l = None; moreover the scanner stays inside l and ends on a char boundary.
   The bound B only serves recursive rules (json.pest: inner).                                               *)
From Coq Require Import List Arith NArith ZArith Bool Lia String.
Import ListNotations.
Require Import PV.Comb.PState PV.Comb.Bytes PV.Comb.Utf8 PV.Comb.Utf8b PV.Iter.Queue PV.Peg.Ast PV.Peg.Spec.
Require Import PV.Json.Rfc8259 PV.Json.Recogniser PV.Json.Utf8Facts PV.Json.EvalFacts.

Section Lex.
Variable G : grammar.
Variable uprop : name -> option (N -> bool).
Variable w : list byte.
Notation E := (evals G uprop w).

(* the suffix of the input at offset p *)
Definition at_ (p : nat) (l : list byte) : Prop := skipn p w = l.
Lemma at_skip p l k : at_ p l -> at_ (p + k) (skipn k l).
Proof. unfold at_. intros <-. apply skipn_add. Qed.
Lemma at_tl p l : at_ p l -> at_ (p + 1) (tl l).
Proof. intros H. rewrite <- skipn_1_tl. now apply at_skip. Qed.

Definition lex (p : nat) (sg : list str) (o : option nat) : sres :=
  match o with Some n => SMatch (p + n) sg [] | None => SFail end.

Lemma ev_lit a emit s p l sg : at_ p l -> E a emit (EStr s) p sg (lex p sg (scan_lit s l)).
Proof.
  intros H. generalize (ev_str G uprop w a emit s p sg). unfold lit, scan_lit, lex. rewrite H. destruct (prefixb s l); auto.
Qed.
Lemma one_char_at ok p l sg : at_ p l ->
  one_char w ok p sg = match decode1 l with Some (c, n) => if ok c then SMatch (p + n) sg [] else SFail | None => SFail end.
Proof. intros H. unfold one_char, char_here. rewrite H. reflexivity. Qed.

(* ---- scanners ---- *)
Definition lexb (B : nat) (e : expr) (sc : list byte -> option nat) : Prop :=
  forall emit p l sg, List.length l <= B -> at_ p l -> valid_utf8 l ->
    E Atomic emit e p sg (lex p sg (sc l)) /\
    (forall n, sc l = Some n -> n <= List.length l /\ valid_utf8 (skipn n l)).
Definition lexes (e : expr) (sc : list byte -> option nat) : Prop := forall B, lexb B e sc.

Definition sc_seq (s1 s2 : list byte -> option nat) (l : list byte) : option nat :=
  match s1 l with Some n1 => match s2 (skipn n1 l) with Some n2 => Some (n1 + n2) | None => None end | None => None end.
Definition sc_or (s1 s2 : list byte -> option nat) (l : list byte) : option nat :=
  match s1 l with Some n => Some n | None => s2 l end.
Definition sc_opt (s : list byte -> option nat) (l : list byte) : option nat := Some (scan_opt (s l)).
Fixpoint star (sc : list byte -> option nat) (fuel : nat) (l : list byte) : nat :=
  match fuel with
  | 0 => 0
  | S f => match sc l with Some n => n + star sc f (skipn n l) | None => 0 end
  end.
Definition sc_star (sc : list byte -> option nat) (l : list byte) : option nat := Some (star sc (List.length l) l).
Definition sc_byte (b : byte) (l : list byte) : option nat := if head_is b l then Some 1 else None.
Definition sc_among (bs : list byte) (l : list byte) : option nat := if head_among bs l then Some 1 else None.
Definition sc_class (ok : N -> bool) (l : list byte) : option nat := if head_in ok l then Some 1 else None.

Lemma lexb_weaken B B' e sc : B' <= B -> lexb B e sc -> lexb B' e sc.
Proof. intros H L emit p l sg Hl. apply L. lia. Qed.
Lemma lexb_ext B e sc sc' : lexb B e sc -> (forall l, List.length l <= B -> valid_utf8 l -> sc l = sc' l) -> lexb B e sc'.
Proof. intros L H emit p l sg Hl Ha V. rewrite <- (H l Hl V). now apply L. Qed.

Lemma lexb_lit B s : Forall ascii s -> lexb B (EStr s) (scan_lit s).
Proof.
  intros As emit p l sg _ Ha V. split; [now apply ev_lit|].
  unfold scan_lit. intros n. destruct (prefixb s l) eqn:P; [|discriminate]. intros [= <-].
  apply prefixb_iff in P. destruct P as [r ->]. rewrite app_length, skipn_app, skipn_all, Nat.sub_diag. cbn [app skipn].
  split; [lia|]. exact (valid_skip_ascii s As r V).
Qed.
Lemma lexb_byte B b : ascii b -> lexb B (EStr [b]) (sc_byte b).
Proof. intros Hb. apply (lexb_lit B [b]). constructor; [exact Hb|constructor]. Qed.

(* b0 | b1 | ... | bn as pest_meta builds it: a left-nested choice of one-byte strings *)
Definition bytes_choice (b0 : byte) (rest : list byte) : expr :=
  fold_left (fun acc b => EChoice acc (EStr [b])) rest (EStr [b0]).
Lemma ev_bytes_choice_aux a emit p l sg rest : at_ p l -> forall e0 (t0 : bool),
  E a emit e0 p sg (lex p sg (if t0 then Some 1 else None)) ->
  E a emit (fold_left (fun acc b => EChoice acc (EStr [b])) rest e0) p sg (lex p sg (if t0 || head_among rest l then Some 1 else None)).
Proof.
  intros Ha. induction rest as [|b rest IH]; intros e0 t0 H0.
  - cbn [fold_left]. unfold head_among. cbn [existsb]. rewrite orb_false_r. exact H0.
  - cbn [fold_left]. unfold head_among. cbn [existsb]. rewrite orb_assoc. apply IH.
    destruct t0; cbn [orb].
    + apply ev_choice_l. exact H0.
    + eapply ev_choice_r; [exact H0|]. apply (ev_lit a emit [b] p l sg Ha).
Qed.
Lemma ev_bytes_choice a emit b0 rest p l sg : at_ p l ->
  E a emit (bytes_choice b0 rest) p sg (lex p sg (sc_among (b0 :: rest) l)).
Proof.
  intros Ha. unfold bytes_choice, sc_among. change (head_among (b0 :: rest) l) with (head_is b0 l || head_among rest l).
  apply ev_bytes_choice_aux; [exact Ha|]. apply (ev_lit a emit [b0] p l sg Ha).
Qed.
Lemma lexb_among B b0 rest : Forall ascii (b0 :: rest) -> lexb B (bytes_choice b0 rest) (sc_among (b0 :: rest)).
Proof.
  intros As emit p l sg _ Ha V. split; [now apply ev_bytes_choice|].
  unfold sc_among. intros n Hn. destruct l as [|x r]; [rewrite head_among_nil in Hn; discriminate|].
  rewrite head_among_cons in Hn. destruct (existsb (N.eqb x) (b0 :: rest)) eqn:Ex; [|discriminate]. injection Hn as <-.
  cbn [skipn List.length]. split; [lia|]. apply existsb_exists in Ex. destruct Ex as (y & Hy & Exy). apply N.eqb_eq in Exy. subst y.
  rewrite Forall_forall in As. exact (valid_tail x r V (As x Hy)).
Qed.

(* a single-character built-in whose class is ASCII *)
Lemma lexb_class B n ok : reserved n = false -> ascii_builtin n = Some ok -> ascii_class ok -> lexb B (EIdent n) (sc_class ok).
Proof.
  intros Hr Hb A emit p l sg _ Ha V. split.
  - generalize (ev_builtin G uprop w Atomic emit n ok p sg Hr Hb). rewrite (one_char_at ok p l sg Ha).
    generalize (class_at ok l V A). unfold sc_class, lex. destruct (decode1 l) as [[c k]|].
    + destruct (ok c); destruct (head_in ok l); intros [=]; subst; auto.
    + destruct (head_in ok l); intros [=]; auto.
  - unfold sc_class. intros k. destruct l as [|x r]; [discriminate|]. cbn [head_in]. destruct (ok x) eqn:Ox; [|discriminate].
    intros [= <-]. cbn [skipn List.length]. split; [lia|]. exact (valid_tail x r V (A x Ox)).
Qed.

Lemma lexb_seq_gen B B2 e1 e2 s1 s2 :
  lexb B e1 s1 -> lexb B2 e2 s2 -> (forall l n, List.length l <= B -> s1 l = Some n -> List.length l - n <= B2) ->
  lexb B (ESeq e1 e2) (sc_seq s1 s2).
Proof.
  intros L1 L2 HB emit p l sg Hl Ha V. destruct (L1 emit p l sg Hl Ha V) as [E1 P1]. unfold sc_seq.
  destruct (s1 l) as [n1|] eqn:S1.
  - destruct (P1 n1 eq_refl) as [Hn1 V1].
    assert (Hl2 : List.length (skipn n1 l) <= B2) by (rewrite skipn_length; eauto).
    destruct (L2 emit (p + n1) (skipn n1 l) sg Hl2 (at_skip p l n1 Ha) V1) as [E2 P2]. split.
    + destruct (s2 (skipn n1 l)) as [n2|] eqn:S2; unfold lex in *.
      * rewrite Nat.add_assoc. change (@nil tree) with ([] ++ [] ++ @nil tree).
        eapply ev_seq_ok; [exact E1|apply skips_atomic; reflexivity|exact E2].
      * eapply ev_seq_fail_r; [exact E1|apply skips_atomic; reflexivity|exact E2].
    + intros n. destruct (s2 (skipn n1 l)) as [n2|] eqn:S2; [|discriminate]. intros [= <-].
      destruct (P2 n2 eq_refl) as [Hn2 V2]. rewrite skipn_length in Hn2. rewrite skipn_add. split; [lia|exact V2].
  - split; [|discriminate]. apply ev_seq_fail_l. exact E1.
Qed.
Lemma lexb_seq B e1 e2 s1 s2 : lexb B e1 s1 -> lexb B e2 s2 -> lexb B (ESeq e1 e2) (sc_seq s1 s2).
Proof. intros L1 L2. apply (lexb_seq_gen B B e1 e2 s1 s2 L1 L2). intros; lia. Qed.
(* the second part is only needed on strictly shorter suffixes when the first part consumes something *)
Lemma lexb_seq_dec B e1 e2 s1 s2 :
  lexb (S B) e1 s1 -> (forall l n, s1 l = Some n -> 0 < n) -> lexb B e2 s2 -> lexb (S B) (ESeq e1 e2) (sc_seq s1 s2).
Proof. intros L1 Pos L2. apply (lexb_seq_gen (S B) B e1 e2 s1 s2 L1 L2). intros l n Hl Hs. apply Pos in Hs. lia. Qed.

Lemma lexb_choice B e1 e2 s1 s2 : lexb B e1 s1 -> lexb B e2 s2 -> lexb B (EChoice e1 e2) (sc_or s1 s2).
Proof.
  intros L1 L2 emit p l sg Hl Ha V. destruct (L1 emit p l sg Hl Ha V) as [E1 P1]. destruct (L2 emit p l sg Hl Ha V) as [E2 P2].
  unfold sc_or. destruct (s1 l) as [n1|] eqn:S1.
  - split; [apply ev_choice_l; exact E1|]. intros n [= <-]. now apply P1.
  - split; [eapply ev_choice_r; [exact E1|exact E2]|exact P2].
Qed.
Lemma lexb_opt B e s : lexb B e s -> lexb B (EOpt e) (sc_opt s).
Proof.
  intros L emit p l sg Hl Ha V. destruct (L emit p l sg Hl Ha V) as [E1 P1]. unfold sc_opt, scan_opt.
  destruct (s l) as [n1|] eqn:S1.
  - split; [apply ev_opt_some; exact E1|]. intros n [= <-]. now apply P1.
  - split; [unfold lex; rewrite Nat.add_0_r; apply ev_opt_none; exact E1|]. intros n [= <-]. cbn [skipn]. split; [lia|exact V].
Qed.

(* iteration; every successful round consumes at least one byte *)
Lemma star_loop B x sc : lexb B x sc -> (forall l n, sc l = Some n -> 0 < n) ->
  forall f emit l p sg acc, List.length l <= f -> List.length l <= B -> at_ p l -> valid_utf8 l ->
    reps G uprop w Atomic emit x p sg acc (SMatch (p + star sc f l) sg acc) /\
    star sc f l <= List.length l /\ valid_utf8 (skipn (star sc f l) l).
Proof.
  intros L Pos. induction f as [|f IH]; intros emit l p sg acc Hf Hl Ha V.
  - destruct l; [|cbn in Hf; lia]. destruct (L emit p [] sg Hl Ha V) as [E1 P1]. cbn [star].
    destruct (sc []) as [n|] eqn:S0; [destruct (P1 n eq_refl) as [Hn _]; apply Pos in S0; cbn in Hn; lia|].
    rewrite Nat.add_0_r. split; [|split; [cbn; lia|exact V]].
    apply loops_stop. eapply rep_unit_fail; [apply skips_atomic; reflexivity|exact E1].
  - destruct (L emit p l sg Hl Ha V) as [E1 P1]. cbn [star]. destruct (sc l) as [n|] eqn:S1.
    + destruct (P1 n eq_refl) as [Hn V1]. pose proof (Pos l n S1) as Hp.
      assert (Hf2 : List.length (skipn n l) <= f) by (rewrite skipn_length; lia).
      assert (Hl2 : List.length (skipn n l) <= B) by (rewrite skipn_length; lia).
      destruct (IH emit (skipn n l) (p + n) sg (acc ++ [] ++ []) Hf2 Hl2 (at_skip p l n Ha) V1) as (R & Hs & Vs).
      rewrite skipn_length in Hs. rewrite <- skipn_add in Vs. rewrite Nat.add_assoc. split; [|split; [lia|exact Vs]].
      eapply loops_step; [eapply rep_unit_ok; [apply skips_atomic; reflexivity|exact E1]|].
      cbn [app] in R. rewrite app_nil_r in R. cbn [app]. rewrite app_nil_r. exact R.
    + rewrite Nat.add_0_r. split; [|split; [lia|exact V]].
      apply loops_stop. eapply rep_unit_fail; [apply skips_atomic; reflexivity|exact E1].
Qed.
Lemma lexb_star B x sc : lexb B x sc -> (forall l n, sc l = Some n -> 0 < n) -> lexb B (ERep x) (sc_star sc).
Proof.
  intros L Pos emit p l sg Hl Ha V.
  destruct (star_loop B x sc L Pos (List.length l) emit l p sg [] (le_n _) Hl Ha V) as (R & Hs & Vs). unfold sc_star. split.
  - apply ev_rep_atomic; [reflexivity|exact R].
  - intros n [= <-]. split; assumption.
Qed.
(* default features: e+ is e ~ e* *)
Definition sc_plus (sc : list byte -> option nat) : list byte -> option nat := sc_seq sc (sc_star sc).
Lemma lexb_plus B x sc : lexb B x sc -> (forall l n, sc l = Some n -> 0 < n) -> lexb B (ERepOnce x) (sc_plus sc).
Proof.
  intros L Pos emit p l sg Hl Ha V.
  destruct (lexb_seq B x (ERep x) sc (sc_star sc) L (lexb_star B x sc L Pos) emit p l sg Hl Ha V) as [E1 P1].
  split; [apply ev_rep_once; exact E1|exact P1].
Qed.
(* e{4} is e ~ (e ~ (e ~ e)) *)
Lemma lexb_exact4 B x sc : lexb B x sc -> lexb B (ERepExact x 4) (sc_seq sc (sc_seq sc (sc_seq sc sc))).
Proof.
  intros L emit p l sg Hl Ha V.
  destruct (lexb_seq B _ _ _ _ L (lexb_seq B _ _ _ _ L (lexb_seq B _ _ _ _ L L)) emit p l sg Hl Ha V) as [E1 P1].
  split; [eapply ev_rep_exact; [reflexivity|exact E1]|exact P1].
Qed.

(* an @ rule called from the interior of an @ rule: its body, no node *)
Lemma lexb_call B n body sc :
  reserved n = false -> ascii_builtin n = None -> is_special n = false ->
  find_rule G n = Some {| rname := n; rty := RAtomic; rexpr := body |} ->
  lexb B body sc -> lexb B (EIdent n) sc.
Proof.
  intros Hr Hb Hs Hf L emit p l sg Hl Ha V. destruct (L emit p l sg Hl Ha V) as [E1 P1]. split; [|exact P1].
  assert (M : rule_mode (is_special n) RAtomic Atomic emit = (false, Atomic)).
  { rewrite Hs. unfold rule_mode, tok. cbn [atom_eqb negb]. rewrite andb_false_r. reflexivity. }
  generalize (ev_rule G uprop w Atomic emit n _ false Atomic p sg _ Hr Hb Hf M E1).
  unfold wrap, lex. destruct (sc l); auto.
Qed.

End Lex.
Arguments bytes_choice b0%N rest.
Arguments sc_byte b%N l.
