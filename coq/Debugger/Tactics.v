(* C17 - step inversion: split `step cf s t = Some s'` into one goal per control point. *)
From Coq Require Import List Arith Bool Lia.
Import ListNotations.
Require Import PV.Debugger.Proto.

Arguments Nat.ltb : simpl never.
Arguments Nat.leb : simpl never.

Ltac break_step H :=
  repeat match type of H with
  | context [match ?x with _ => _ end] => destruct x eqn:?; try discriminate H
  | context [if ?b then _ else _] => destruct b eqn:?; try discriminate H
  end.

(* s must be a variable; afterwards every field of s is a variable and s' is an explicit record *)
Ltac step_inv s H :=
  destruct s as [cm cp pp hd tk dn bp mx ch lg ud ou ce co];
  unfold step, step_c, step_p, send in H; cbn in H;
  break_step H; cbn in H; break_step H;
  try (injection H as H; subst); try discriminate;
  repeat match goal with
  | E : (if ?b then Some _ else None) = Some _ |- _ =>
      destruct b eqn:?; [injection E as E; subst | discriminate E]
  | E : (if ?b then Some _ else None) = None |- _ => clear E
  end.

Lemma exec_app : forall cf sch1 sch2 s,
  exec cf s (sch1 ++ sch2) = match exec cf s sch1 with Some s' => exec cf s' sch2 | None => None end.
Proof.
  induction sch1 as [|t sch1 IH]; intros sch2 s; cbn [exec app]; [reflexivity|].
  destruct (step cf s t); [apply IH|reflexivity].
Qed.

(* invariants: holds initially + preserved by every enabled step => holds in every reachable state *)
Lemma reachable_ind : forall cf (I : state -> Prop),
  (forall cs b, I (init cs b)) ->
  (forall s t s', I s -> step cf s t = Some s' -> I s') ->
  forall cs b s, reachable cf cs b s -> I s.
Proof.
  intros cf I Hinit Hstep cs b s [sch Hs].
  assert (G : forall sch s0 s1, I s0 -> exec cf s0 sch = Some s1 -> I s1).
  { induction sch0 as [|t sch0 IH]; intros s0 s1 H0 He; cbn [exec] in He.
    - injection He as <-. exact H0.
    - destruct (step cf s0 t) eqn:Es; [|discriminate]. eapply IH; [|exact He]. eapply Hstep; eauto. }
  eapply G; [apply Hinit | exact Hs].
Qed.
