(* C17 - a re-run terminates the previous run (repaired code, disciplined controller). *)
From Coq Require Import List Arith Bool Lia.
Import ListNotations.
Require Import PV.Debugger.Proto PV.Debugger.Spec PV.Debugger.Tactics PV.Debugger.Struct PV.Debugger.Quiet.

Definition is_recv (a : act) : bool := match a with ARecv _ => true | _ => false end.
Definition is_bp (ev : event) : bool := match ev with EvBp _ _ => true | _ => false end.
(* events in the channel that are not breakpoint events *)
Definition nbp (ch : list event) : nat := length (filter (fun ev => negb (is_bp ev)) ch).

Lemma nbp_snoc : forall ch ev, nbp (ch ++ [ev]) = nbp ch + (if is_bp ev then 0 else 1).
Proof. intros. unfold nbp. rewrite filter_app, app_length. cbn. destruct (is_bp ev); reflexivity. Qed.

(* how many more events the parsing thread can still put into the channel before it needs a
   further cont(): the quantity that must fit into the channel when the controller sits in join *)
Definition pot (s : state) : nat :=
  if is_done s then
    match p_pc s with PLock _ _ _ | PSend _ _ _ | PFinalSend _ => 1 | _ => 0 end
  else
    match p_pc s with
    | PStart _ _ | PLoad _ _ | PLock _ _ _ | PSend _ _ _ => 1 + Nat.b2n (token s)
    | PPark _ _ => Nat.b2n (token s)
    | PFinal _ | PFinalSend _ => 1
    | _ => 0
    end.

Definition p_over (s : state) : Prop := p_pc s = PExit \/ p_pc s = PDone \/ p_pc s = PDead.
Definition in_run (s : state) : option bool :=   (* Some d inside run() before the join returns *)
  match c_pc s with RLoad d _ _ | RStore d _ _ | RUnpark d _ _ | RJoin d _ _ => Some d | _ => None end.
Definition kicks (s : state) : nat := count is_kick (log s).

Definition prog_inv (s : state) : Prop :=
  (* channel accounting *)
  count is_send (log s) = count is_recv (log s) + length (chan s) /\
  count is_send (log s) + count is_bp_recv (log s) = count is_recv (log s) + count is_bp_send (log s) + nbp (chan s) /\
  (* discipline *)
  (undisc s = false -> count is_cont (log s) <= count is_bp_recv (log s)) /\
  (* the kick happens once, inside run() *)
  (handle s = true -> kicks s = 0) /\
  (match c_pc s with RLoad _ _ _ | RStore _ _ _ | RUnpark _ _ _ => kicks s = 0 | _ => True end) /\
  (* the flag *)
  (is_done s = true -> p_over s \/ (exists d es o, c_pc s = RUnpark d es o) \/ ((exists d es o, c_pc s = RJoin d es o) /\ kicks s >= 1)) /\
  (match c_pc s with
   | RUnpark _ _ _ => is_done s = true
   | RJoin _ _ _ => (kicks s >= 1 /\ is_done s = true) \/ (kicks s = 0 /\ p_over s)
   | RSpawn _ _ => is_done s = false
   | _ => True
   end) /\
  (* what still fits *)
  (in_run s = Some true -> undisc s = false -> length (chan s) + pot s <= 1) /\
  (* the kick's token is there for the one park that can still happen *)
  (match c_pc s, p_pc s with
   | RJoin _ _ _, PLock _ _ _ | RJoin _ _ _, PSend _ _ _ | RJoin _ _ _, PPark _ _ => kicks s >= 1 -> token s = true
   | _, _ => True
   end) /\
  (match p_pc s with PLoad [] _ => False | _ => True end).

Lemma prog_init : forall cs b, prog_inv (init cs b).
Proof. intros. unfold prog_inv, kicks, in_run, pot. cbn. intuition (try lia; try discriminate). Qed.

Ltac crush_counts :=
  unfold prog_inv, quiet_inv, quiet_ok, past_final, final_ev_ok, struct_inv, p_gone, p_over, kicks, in_run, pot, parked, count in *;
  cbn in *.

Lemma prog_step : forall k s t s',
  struct_inv s -> quiet_inv s -> prog_inv s -> step (repaired k) s t = Some s' -> prog_inv s'.
Proof.
  intros k s t s' Hst Hq Hi H. unfold repaired in H.
  destruct t; step_inv s H; crush_counts.
  all: try match goal with cp : cpc |- _ => destruct cp end.
  all: try match goal with pp : ppc |- _ => destruct pp end.
  all: repeat match goal with |- context [next_pc ?es ?o] => destruct es; cbn end.
  all: rewrite ?app_length, ?nbp_snoc in *; cbn in *.
  all: repeat match goal with e : event |- _ => destruct e; cbn in * end.
  all: repeat match goal with b : bool |- _ => destruct b; cbn in * end.
  all: try solve [intuition (try lia; try discriminate; try congruence; eauto 7)].
  all: idtac "left". 
Abort.
