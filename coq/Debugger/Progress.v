(* C17 - a re-run terminates the previous run (repaired code, disciplined controller). *)
From Coq Require Import List Arith Bool Lia.
Import ListNotations.
Require Import PV.Debugger.Proto PV.Debugger.Spec PV.Debugger.Tactics PV.Debugger.Struct PV.Debugger.Quiet.

Definition is_recv (a : act) : bool := match a with ARecv _ => true | _ => false end.
Definition is_bp (ev : event) : bool := match ev with EvBp _ _ => true | _ => false end.
(* events in the channel that are not breakpoint events *)
Definition nbp (ch : list event) : nat := length (filter (fun ev => negb (is_bp ev)) ch).

Lemma nbp_snoc : forall ch ev, nbp (ch ++ [ev]) = nbp ch + (if is_bp ev then 0 else 1).
Proof. intros. unfold nbp. rewrite filter_app, app_length. cbn. destruct (is_bp ev); reflexivity. Qed.

(* how many more events the parsing thread can still put into the channel before it needs a
   further cont(): the quantity that must fit into the channel when the controller sits in join *)
Definition pot (s : state) : nat :=
  if is_done s then
    match p_pc s with PLock _ _ _ | PHeld _ _ _ | PSend _ _ _ | PFinalSend _ => 1 | _ => 0 end
  else
    match p_pc s with
    | PStart _ _ | PLoad _ _ | PLock _ _ _ | PHeld _ _ _ | PSend _ _ _ => 1 + Nat.b2n (token s)
    | PPark _ _ => Nat.b2n (token s)
    | PFinal _ | PFinalSend _ => 1
    | _ => 0
    end.

Lemma nbp_cons : forall ch ev, nbp (ev :: ch) = (if is_bp ev then 0 else 1) + nbp ch.
Proof. intros. unfold nbp. cbn. destruct (is_bp ev); reflexivity. Qed.
Lemma nbp_nil : nbp [] = 0. Proof. reflexivity. Qed.
Arguments nbp : simpl never.

Definition p_over (s : state) : Prop := p_pc s = PExit \/ p_pc s = PDone \/ p_pc s = PDead.
Definition kicks (s : state) : nat := count is_kick (log s).

(* ---- 1. channel accounting and the discipline counter (any configuration) ------------------ *)
Definition acct_inv (s : state) : Prop :=
  count is_send (log s) = count is_recv (log s) + length (chan s) /\
  count is_send (log s) + count is_bp_recv (log s) = count is_recv (log s) + count is_bp_send (log s) + nbp (chan s) /\
  (undisc s = false -> count is_cont (log s) <= count is_bp_recv (log s)).

Lemma acct_init : forall cs b, acct_inv (init cs b).
Proof. intros. unfold acct_inv. cbn. rewrite nbp_nil. lia. Qed.

Lemma acct_step : forall cf s t s', acct_inv s -> step cf s t = Some s' -> acct_inv s'.
Proof.
  intros cf s t s' Hi H. destruct cf as [fx sp cp0].
  destruct t; step_inv s H; unfold acct_inv, count in *; cbn in *;
    rewrite ?app_length, ?nbp_snoc, ?nbp_cons, ?nbp_nil in *; cbn in *;
    repeat match goal with e : event |- _ => destruct e; cbn in * end;
    try match goal with |- context [undisc] => idtac | ud : bool |- _ => idtac end;
    try (destruct Hi as (H1 & H2 & H3); repeat split; try lia;
         try (intro Hu; try (apply orb_false_iff in Hu; destruct Hu as [Hu Hv]; apply negb_false_iff in Hv; apply Nat.ltb_lt in Hv);
              try specialize (H3 Hu); lia)).
Qed.

(* ---- 2. the flag and the kick (any configuration) ------------------------------------------- *)
Definition flag_inv (s : state) : Prop :=
  (handle s = true -> kicks s = 0) /\
  (match c_pc s with
   | RLoad _ _ _ | RStore _ _ _ => kicks s = 0
   | RUnpark _ _ _ => kicks s = 0 /\ is_done s = true
   | RJoin _ _ _ => (kicks s >= 1 /\ is_done s = true) \/ (kicks s = 0 /\ p_over s)
   | RSpawn _ _ => is_done s = false
   | _ => True
   end) /\
  (is_done s = true -> p_over s \/ match c_pc s with RUnpark _ _ _ | RJoin _ _ _ => True | _ => False end) /\
  (match p_pc s with PLoad [] _ => False | _ => True end).

Lemma flag_init : forall cs b, flag_inv (init cs b).
Proof. intros. unfold flag_inv, kicks, p_over. cbn. intuition discriminate. Qed.

Lemma flag_step : forall cf s t s', struct_inv s -> flag_inv s -> step cf s t = Some s' -> flag_inv s'.
Proof.
  intros cf s t s' Hst Hi H. destruct cf as [fx sp cp0].
  destruct t; step_inv s H; unfold flag_inv, struct_inv, p_gone, kicks, p_over, count in *; cbn in *.
  all: try match goal with cp : cpc |- _ => destruct cp end; cbn in *.
  all: repeat match goal with |- context [next_pc ?es ?o] => destruct es; cbn end.
  all: try solve [intuition (try lia; try discriminate; try congruence)].
Qed.

(* ---- 3. what still fits into the channel during run() (repaired code, no spurious wake-up) --- *)
Definition in_run (s : state) : option bool :=   (* Some d inside run() before the join returns *)
  match c_pc s with RLoad d _ _ | RStore d _ _ | RUnpark d _ _ | RJoin d _ _ => Some d | _ => None end.

Definition fit_inv (s : state) : Prop :=
  (in_run s = Some true -> undisc s = false -> length (chan s) + pot s <= 1) /\
  (match c_pc s, p_pc s with
   | RJoin _ _ _, PLock _ _ _ | RJoin _ _ _, PHeld _ _ _ | RJoin _ _ _, PSend _ _ _ | RJoin _ _ _, PPark _ _ => kicks s >= 1 -> token s = true
   | _, _ => True
   end).

Lemma fit_init : forall cs b, fit_inv (init cs b).
Proof. intros. unfold fit_inv, in_run. cbn. split; [discriminate|exact I]. Qed.

Ltac unfold_all :=
  unfold fit_inv, flag_inv, acct_inv, quiet_inv, quiet_ok, past_final, final_ev_ok, struct_inv, p_gone, p_over,
         kicks, in_run, pot, parked, count in *; cbn in *.

Lemma fit_step : forall k s t s',
  struct_inv s -> quiet_inv s -> acct_inv s -> flag_inv s -> fit_inv s ->
  step (repaired k) s t = Some s' -> fit_inv s'.
Proof.
  intros k s t s' Hst Hq Ha Hf Hi H. unfold repaired in H.
  destruct t.
  - step_inv s H; unfold_all.
    all: try solve [split; [discriminate | exact I]].
    all: try solve [destruct Hi as [Hi1 Hi2]; split; [exact Hi1 | destruct pp; exact Hi2 || exact I]].
    all: try match goal with |- context [isnil ?c] => destruct c; cbn in *; rewrite ?nbp_nil in * end.
    all: destruct pp; cbn in *.
    all: try solve [split; [discriminate | exact I]].
    all: try (destruct dn; cbn in * ); try (destruct tk; cbn in * ).
    all: try solve [intuition (try lia; try congruence; try discriminate)].
  - step_inv s H; unfold_all.
    all: repeat match goal with |- context [next_pc ?es ?o] => destruct es; cbn end.
    all: destruct cp; cbn in *.
    all: try solve [split; [discriminate | exact I]].
    all: rewrite ?app_length in *; cbn in *.
    all: try (destruct dn; cbn in * ); try (destruct tk; cbn in * ).
    all: try solve [intuition (try lia; try congruence; try discriminate)].
Qed.

