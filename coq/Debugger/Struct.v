(* C17 - structural invariant: which thread states go with which controller states. *)
From Coq Require Import List Arith Bool Lia.
Import ListNotations.
Require Import PV.Debugger.Proto PV.Debugger.Spec PV.Debugger.Tactics.

Definition p_gone (s : state) : Prop := p_pc s = PNone \/ p_pc s = PDone \/ p_pc s = PDead.

(* who holds the guard of the breakpoint set *)
Definition p_held (s : state) : bool := match p_pc s with PHeld _ _ _ => true | _ => false end.
Definition c_held (s : state) : bool := match c_pc s with EAdd _ | EDel _ => true | _ => false end.

Definition struct_inv (s : state) : Prop :=
  (match c_pc s with
   | CIdle | KLoad | EAdd _ | EDel _ => handle s = false -> p_pc s = PNone \/ p_pc s = PDead
   | KUnpark => handle s = true
   | RLoad _ _ _ | RStore _ _ _ | RUnpark _ _ _ | RJoin _ _ _ => handle s = false /\ p_pc s <> PNone
   | RReset _ _ | RSpawn _ _ => handle s = false /\ p_gone s
   end) /\
  (handle s = true -> p_pc s <> PNone) /\
  (* an abort is only ever caused by the flag, and the flag stays up while the thread lives *)
  (aborted (log s) = true -> p_pc s <> PDone -> p_pc s <> PDead -> is_done s = true) /\
  (p_pc s = PNone -> log s = []) /\
  (* the mutex is held by exactly the thread whose control point says so *)
  mtx s = (p_held s || c_held s) /\ (p_held s && c_held s = false).

Lemma struct_init : forall cs b, struct_inv (init cs b).
Proof. intros. unfold struct_inv, p_gone, p_held, c_held. cbn. intuition congruence. Qed.

Lemma struct_step : forall cf s t s', struct_inv s -> step cf s t = Some s' -> struct_inv s'.
Proof.
  intros cf s t s' Hi H. destruct cf as [fx sp cp0].
  destruct t; step_inv s H; unfold struct_inv, p_gone, p_held, c_held, aborted in *; cbn in *;
    try match goal with cp : cpc |- _ => destruct cp end;
    try match goal with pp : ppc |- _ => destruct pp end;
    repeat match goal with |- context [next_pc ?es ?o] => destruct es; cbn end;
    intuition (subst; cbn in *; try congruence; try discriminate).
Qed.

Lemma struct_reachable : forall cf cs b s, reachable cf cs b s -> struct_inv s.
Proof.
  intros cf cs b s. apply reachable_ind; [apply struct_init|]. intros; eapply struct_step; eauto.
Qed.
