(* C17 - at most one delivery per continue (repaired code). *)
From Coq Require Import List Arith Bool Lia.
Import ListNotations.
Require Import PV.Debugger.Proto PV.Debugger.Spec PV.Debugger.Tactics PV.Debugger.Struct PV.Debugger.Quiet PV.Debugger.Progress.

(* after the kick the flag is up, so the only deliveries still possible are those already under way *)
Definition under_way (s : state) : nat :=
  match p_pc s with PLock _ _ _ | PHeld _ _ _ | PSend _ _ _ | PFinalSend _ => 1 | _ => 0 end.

Definition cnt_inv (s : state) : Prop :=
  kicks s >= 1 ->
  (is_done s = true \/ p_pc s = PDone \/ p_pc s = PDead) /\
  count is_send (log s) + under_way s <= 1 + count is_cont (log s).

Lemma cnt_init : forall cs b, cnt_inv (init cs b).
Proof. intros. unfold cnt_inv, kicks. cbn. lia. Qed.

Lemma cnt_step : forall k s t s',
  struct_inv s -> quiet_inv s -> flag_inv s -> cnt_inv s ->
  step (repaired k) s t = Some s' -> cnt_inv s'.
Proof.
  intros k s t s' Hst Hq Hf Hi H. unfold repaired in H.
  destruct t; step_inv s H;
    unfold cnt_inv, under_way, flag_inv, quiet_inv, quiet_ok, past_final, final_ev_ok, struct_inv, p_gone, p_over,
           kicks, parked, count in *; cbn in *.
  all: repeat match goal with |- context [next_pc ?es ?o] => destruct es; cbn end.
  all: try solve [intuition (try lia; try congruence; try discriminate)].
  all: try (destruct pp; cbn in * ).
  all: try (destruct tk; cbn in * ).
  all: try solve [intuition (try lia; try congruence; try discriminate)].
Qed.

Lemma cnt_reachable : forall k cs b s, reachable (repaired k) cs b s ->
  struct_inv s /\ quiet_inv s /\ flag_inv s /\ cnt_inv s.
Proof.
  intros k cs b s.
  apply (reachable_ind (repaired k) (fun s => struct_inv s /\ quiet_inv s /\ flag_inv s /\ cnt_inv s)).
  - intros cs0 b0. pose proof (struct_init cs0 b0). pose proof (quiet_init cs0 b0).
    pose proof (flag_init cs0 b0). pose proof (cnt_init cs0 b0). tauto.
  - intros s0 t s1 (H1 & H2 & H3 & H4) Hs.
    pose proof (struct_step _ _ _ _ H1 Hs).
    assert (quiet_inv s1) by (eapply (quiet_step (repaired k)); [reflexivity | exact H2 | exact Hs]).
    pose proof (flag_step _ _ _ _ H1 H3 Hs).
    pose proof (cnt_step _ _ _ _ H1 H2 H3 H4 Hs). tauto.
Qed.

(* at every moment of every run of the repaired code: #deliveries <= 1 + #cont *)
Theorem one_delivery_per_cont : forall k cs b s, reachable (repaired k) cs b s -> count_ok s.
Proof.
  intros k cs b s Hr. destruct (cnt_reachable _ _ _ _ Hr) as (_ & Hq & Hf & Hc).
  unfold count_ok, cnt_inv, quiet_inv, quiet_ok, past_final, kicks, parked in *.
  destruct Hq as ((Q1 & Q2 & Q3) & P & _).
  destruct (count is_kick (log s)) eqn:Ek.
  - destruct P as [P|[P Hpc]]; destruct (p_pc s); try contradiction; lia.
  - assert (G : S n >= 1) by lia. specialize (Hc G). lia.
Qed.

