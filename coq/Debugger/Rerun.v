(* C17 - a re-run terminates the previous run: the theorem, and termination of all schedules. *)
From Coq Require Import List Arith Bool Lia.
Import ListNotations.
Require Import PV.Debugger.Proto PV.Debugger.Spec PV.Debugger.Tactics PV.Debugger.Struct PV.Debugger.Quiet PV.Debugger.Progress.

(* ---- 4. all invariants together, in every reachable state of the repaired code ------------- *)
Definition all_inv (s : state) : Prop :=
  struct_inv s /\ quiet_inv s /\ acct_inv s /\ flag_inv s /\ fit_inv s.

Lemma all_reachable : forall k cs b s, reachable (repaired k) cs b s -> all_inv s.
Proof.
  intros k cs b s. apply reachable_ind.
  - intros. unfold all_inv.
    pose proof (struct_init cs0 b0). pose proof (quiet_init cs0 b0). pose proof (acct_init cs0 b0).
    pose proof (flag_init cs0 b0). pose proof (fit_init cs0 b0). tauto.
  - intros s0 t s1 (H1 & H2 & H3 & H4 & H5) Hs. unfold all_inv.
    pose proof (struct_step _ _ _ _ H1 Hs).
    assert (quiet_inv s1) by (eapply (quiet_step (repaired k)); [reflexivity | exact H2 | exact Hs]).
    pose proof (acct_step _ _ _ _ H3 Hs).
    pose proof (flag_step _ _ _ _ H1 H4 Hs).
    pose proof (fit_step _ _ _ _ H1 H2 H3 H4 H5 Hs). tauto.
Qed.

(* THE PROGRESS THEOREM (repaired code): whenever the controller waits in the join of a re-run that
   it started after having received every delivered event, and it has only ever answered received
   breakpoint events with cont(), the parsing thread has finished or is able to take a step. *)
Theorem join_never_stuck : forall k cs b s,
  k >= 1 -> reachable (repaired k) cs b s -> disciplined s = true -> join_progress (repaired k) s.
Proof.
  intros k cs b s Hk Hr Hd Hj.
  destruct (all_reachable _ _ _ _ Hr) as (Hst & Hq & Ha & Hf & Hi).
  unfold disciplined in Hd. apply negb_true_iff in Hd.
  unfold in_join_drained in Hj.
  destruct s as [cm cp pp hd tk dn bp mx ch lg ud ou ce co]. cbn in *.
  destruct cp; try discriminate. destruct d; try discriminate. subst ud.
  unfold enabled, step, step_c, step_p, send, repaired. cbn.
  unfold_all.
  destruct Hi as [Hi1 Hi2]. specialize (Hi1 eq_refl eq_refl).
  destruct Hf as (Hf1 & Hf2 & Hf3 & Hf4).
  destruct Hst as ((_ & Hnn) & _ & _ & _ & Hmx & _). unfold p_held, c_held in Hmx. cbn in Hmx.
  destruct pp; cbn in *; auto; try (exfalso; apply Hnn; reflexivity); right.
  all: try (destruct es0; [contradiction|]).
  all: try (subst mx; cbn).
  all: try solve [destruct dn; auto].
  - (* PSend: the channel has room *)
    assert (E0 : length ch = 0) by (destruct dn; lia). rewrite E0.
    destruct (0 <? k) eqn:E; auto. apply Nat.ltb_ge in E. lia.
  - (* PPark: the kick's token is there *)
    destruct Hf2 as [[Hk1 Hd1]|[Hk0 Ho]].
    + rewrite (Hi2 Hk1). reflexivity.
    + destruct Ho as [Ho|[Ho|Ho]]; discriminate.
  - assert (E0 : length ch = 0) by (destruct dn; lia). rewrite E0.
    destruct (0 <? k) eqn:E; auto. apply Nat.ltb_ge in E. lia.
Qed.

Corollary rerun_no_deadlock : forall k cs b s,
  k >= 1 -> reachable (repaired k) cs b s -> disciplined s = true -> in_join_drained s = true ->
  deadlocked (repaired k) s = false.
Proof.
  intros k cs b s Hk Hr Hd Hj. unfold deadlocked.
  destruct (join_never_stuck k cs b s Hk Hr Hd Hj) as [H|H]; rewrite H; cbn; auto.
  destruct (enabled (repaired k) s C); reflexivity.
Qed.

(* ---- termination: every step decreases a measure, so every schedule is finite ---------------- *)
Definition pw (es : list entry) : nat := 5 * length es + 8.
Definition cmd_weight (c : cmd) : nat := match c with CRun es _ => 20 + 5 * length es | _ => 3 end.
Definition c_rank (c : cpc) : nat :=
  match c with
  | CIdle => 0 | KLoad => 2 | KUnpark => 1 | EAdd _ | EDel _ => 1
  | RLoad _ es _ => 7 + pw es | RStore _ es _ => 6 + pw es | RUnpark _ es _ => 5 + pw es
  | RJoin _ es _ => 4 + pw es | RReset es _ => 3 + pw es | RSpawn es _ => 2 + pw es
  end.
Definition p_rank (p : ppc) : nat :=
  match p with
  | PNone | PDead => 0 | PDone => 1 | PExit => 2 | PStore => 3 | PFinalSend _ => 4 | PFinal _ => 5
  | PStart es _ => 5 * length es + 7 | PLoad es _ => 5 * length es + 6
  | PLock _ es _ => 5 * length es + 10 | PHeld _ es _ => 5 * length es + 9
  | PSend _ es _ => 5 * length es + 8 | PPark es _ => 5 * length es + 7
  end.
Definition measure (s : state) : nat :=
  list_sum (map cmd_weight (cmds s)) + c_rank (c_pc s) + p_rank (p_pc s).

Lemma step_decreases : forall cf s t s', step cf s t = Some s' -> measure s' < measure s.
Proof.
  intros cf s t s' H. destruct cf as [fx sp cp0].
  destruct t; step_inv s H; unfold measure, pw; cbn;
    repeat match goal with |- context [next_pc ?es ?o] => destruct es; cbn end;
    try lia.
Qed.

Theorem all_schedules_finite : forall cf sch s s',
  exec cf s sch = Some s' -> length sch + measure s' <= measure s.
Proof.
  induction sch as [|t sch IH]; intros s s' H; cbn [exec] in H.
  - injection H as <-. cbn. lia.
  - destruct (step cf s t) eqn:E; [|discriminate].
    apply step_decreases in E. apply IH in H. cbn [length]. lia.
Qed.

(* ---- the mutex of the breakpoint set never blocks for good (any version of the code) ---------- *)
(* the controller is about to call add_breakpoint / delete_breakpoint *)
Definition edit_pending (s : state) : bool :=
  match c_pc s, cmds s with
  | CIdle, CAdd _ :: _ | CIdle, CDel _ :: _ => true
  | _, _ => false
  end.
(* the listener is about to lock the breakpoint set *)
Definition lookup_pending (s : state) : bool := match p_pc s with PLock _ _ _ => true | _ => false end.

(* Whoever wants the guard either gets it at once, or the other thread holds it, can always take its
   next step, and that step drops the guard: in particular an edit issued while the parse is stopped
   at a breakpoint (parked, or blocked in send) goes through immediately. *)
Definition edits_never_block (cf : config) (s : state) : Prop :=
  (edit_pending s = true ->
     enabled cf s C = true \/
     (enabled cf s P = true /\ forall s', step cf s P = Some s' -> enabled cf s' C = true)) /\
  (lookup_pending s = true ->
     enabled cf s P = true \/
     (enabled cf s C = true /\ forall s', step cf s C = Some s' -> enabled cf s' P = true)) /\
  (* while parked or blocked in send the parsing thread does not hold the guard *)
  (match p_pc s with PSend _ _ _ | PPark _ _ | PFinal _ | PFinalSend _ => edit_pending s = true -> enabled cf s C = true | _ => True end).

Theorem mutex_never_blocks : forall cf cs b s, reachable cf cs b s -> edits_never_block cf s.
Proof.
  intros cf cs b s Hr. pose proof (struct_reachable _ _ _ _ Hr) as Hst.
  destruct Hst as (_ & _ & _ & _ & Hmx & Hex).
  destruct s as [cm cp pp hd tk dn bp mx ch lg ud ou ce co].
  unfold p_held, c_held, edits_never_block, edit_pending, lookup_pending, enabled, step, step_c, step_p in *. cbn in *.
  repeat split.
  - intros He. destruct cp; try discriminate. destruct cm as [|c cm]; try discriminate.
    destruct c; try discriminate; cbn in *; rewrite orb_false_r in Hmx; subst mx;
      (destruct pp; cbn; auto; right; split; [reflexivity|]; intros s' E; injection E as <-; reflexivity).
  - intros He. destruct pp; try discriminate. cbn in *. subst mx.
    destruct cp; cbn; auto; right; (split; [reflexivity|]); intros s' E; injection E as <-; reflexivity.
  - destruct pp; auto; intros He; destruct cp; try discriminate; destruct cm as [|c cm]; try discriminate;
      destruct c; try discriminate; cbn in *; subst mx; reflexivity.
Qed.
