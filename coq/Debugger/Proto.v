(* C17 - transition system of the pest debugger protocol (debugger/src/lib.rs).

   Two threads: the controller C (the caller of DebuggerContext::run / cont / add_breakpoint /
   delete_breakpoint and of Receiver::recv, used the way debugger/src/main.rs uses it: one fresh
   sync_channel per run, the previous receiver kept until run() has returned) and the parsing
   thread P spawned by DebuggerContext::handle.  Every control point of the listener closure, of
   the thread body, of run() and of cont() is a program counter; one `step` is the code between
   two consecutive control points (they are the yield points of hooks/C17-yield-points.patch).
   A blocked operation (send on a full channel, park without token, join of a live thread,
   recv on an empty channel of a live thread, Mutex::lock while the guard is held) is a step that is NOT enabled (step = None).
   Schedules are lists of thread ids.

   The parse itself is abstract: the list of rule entries (rule, position) at which the VM calls
   the listener and the final outcome are parameters carried by the run command.
   The Mutex of the breakpoint set has explicit acquire and release steps (the release follows the
   acquire without a yield point in the code as it is); it is never poisoned: the only panic of the
   parsing thread happens inside vm.parse after an abort, where no guard is held.
   thread::park is modelled with its token and (flag `spur` off) without spurious wake-ups. *)
From Coq Require Import List Arith Bool.
Import ListNotations.

Definition rule := nat.
(* one call of the listener by the VM: rule, position, and whether ABORTING the parse at this call
   (listener returns true here and at every later call) makes vm.parse panic instead of return:
   the VM answers an abort with a brand-new ParserState, and an enclosing rule whose body tolerates
   the failure then indexes the empty token queue (pest/src/parser_state.rs, `new_state.queue[index]`). *)
Definition entry := (rule * nat * bool)%type.
Definition e_rule (e : entry) : rule := fst (fst e).
Definition e_pos (e : entry) : nat := snd (fst e).
Definition e_panic (e : entry) : bool := snd e.

Inductive outcome := OEof | OErr (e : nat).
Inductive event := EvBp (r : rule) (p : nat) | EvEof | EvErr (e : nat) | EvAbort.
Definition ev_of (o : outcome) : event := match o with OEof => EvEof | OErr e => EvErr e end.

Inductive cmd :=
| CRun (es : list entry) (o : outcome)   (* run(rule, fresh sender); parse = entries es, outcome o *)
| CCont                                   (* cont() *)
| CAdd (rs : list rule)                   (* add_breakpoint (one rule) / add_all_rules_breakpoints (the grammar's rules): one guard, all inserts *)
| CDel (r : rule)                         (* delete_breakpoint *)
| CRecv.                                  (* receiver.recv() on the current run's channel *)

(* parsing thread: control points *)
Inductive ppc :=
| PNone                                            (* no thread was ever spawned *)
| PStart (es : list entry) (o : outcome)           (* t_start: closure entered *)
| PLoad (es : list entry) (o : outcome)            (* l_load: listener entered for hd es, before is_done.load *)
| PLock (e : entry) (es : list entry) (o : outcome)(* l_lock: flag was false, before breakpoints.lock() *)
| PHeld (e : entry) (es : list entry) (o : outcome)(* guard held: before lock.contains(&rule) and the drop of the guard
                                                      (no yield point: nothing else happens in between) *)
| PSend (e : entry) (es : list entry) (o : outcome)(* l_send: rule is a breakpoint, before rsender.send *)
| PPark (es : list entry) (o : outcome)            (* l_park: event sent, before thread::park *)
| PFinal (ev : event)                              (* t_final: vm.parse returned (literal code: before the final send;
                                                      fixed code: before the is_done check guarding it) *)
| PFinalSend (ev : event)                          (* t_final_send (fixed code only): flag was false, before the send *)
| PStore                                           (* t_store: before is_done.store(true) *)
| PExit                                            (* t_exit: closure about to return *)
| PDone                                            (* thread finished; join returns Ok *)
| PDead.                                           (* thread unwound by a panic inside vm.parse; join returns Err *)

(* controller: control points; d = "the channel was empty when run() was called" *)
Inductive cpc :=
| CIdle                                            (* cmd: between two API calls *)
| RLoad (d : bool) (es : list entry) (o : outcome) (* r_load: handle taken, before is_done.load *)
| RStore (d : bool) (es : list entry) (o : outcome)(* r_store: before is_done.store(true) *)
| RUnpark (d : bool) (es : list entry) (o : outcome)(* r_unpark: before handle.thread().unpark() *)
| RJoin (d : bool) (es : list entry) (o : outcome) (* r_join: before handle.join() *)
| RReset (es : list entry) (o : outcome)           (* r_reset: before is_done.store(false) *)
| RSpawn (es : list entry) (o : outcome)           (* r_spawn: before thread::spawn / self.handle = Some *)
| KLoad                                            (* c_load: cont(), before is_done.load *)
| KUnpark                                          (* c_unpark: before handle.thread().unpark() *)
| EAdd (rs : list rule)                            (* add_breakpoint / add_all_rules_breakpoints: guard held, before the inserts and drop *)
| EDel (r : rule).                                 (* delete_breakpoint: guard held, before remove and drop *)

(* ghost log of the current run, newest first *)
Inductive act :=
| ALook (e : entry) (bs : list rule) (* breakpoint lookup for entry e; bs = the breakpoint set at that moment *)
| ASend (ev : event)             (* event put into the channel = delivered *)
| AWake                          (* park returned *)
| ACont                          (* unpark by cont() *)
| AKick                          (* unpark by a re-run *)
| ARecv (ev : event)             (* controller received ev *)
| AAbort.                        (* listener saw is_done and aborted the parse *)

(* what the controller observes (compared with the real code by the harness) *)
Inductive obs := ORecv (ev : event) | ODisc | ONoRx | OContOk | OContEof | OContNoRun
                 | ORunPanic.   (* run() returned Err(PreviousRunPanic): the new session was NOT started *)

Record config := { fixed : bool; spur : bool; cap : nat }.

Record state := {
  cmds : list cmd;
  c_pc : cpc;
  p_pc : ppc;
  handle : bool;          (* self.handle.is_some() *)
  token : bool;           (* park token of the current parsing thread *)
  is_done : bool;
  bps : list rule;        (* the breakpoint set *)
  mtx : bool;             (* its Mutex is held (by the thread whose control point says so) *)
  chan : list event;      (* channel of the current run, oldest first *)
  log : list act;         (* ghost *)
  undisc : bool;          (* ghost: in this run a cont() unparked although no received breakpoint event was unanswered *)
  out : list obs;         (* controller observations, newest first *)
  cur_es : list entry;    (* ghost: the entry list of the current run *)
  cur_o : outcome         (* ghost: the outcome of the current run's plain parse *)
}.

Definition init (cs : list cmd) (b : list rule) : state :=
  {| cmds := cs; c_pc := CIdle; p_pc := PNone; handle := false; token := false; is_done := false;
     bps := b; mtx := false; chan := []; log := []; undisc := false; out := []; cur_es := []; cur_o := OEof |}.

Inductive tid := C | P.

Definition is_bp_send (a : act) : bool := match a with ASend (EvBp _ _) => true | _ => false end.
Definition is_send (a : act) : bool := match a with ASend _ => true | _ => false end.
Definition is_wake (a : act) : bool := match a with AWake => true | _ => false end.
Definition is_cont (a : act) : bool := match a with ACont => true | _ => false end.
Definition is_kick (a : act) : bool := match a with AKick => true | _ => false end.
Definition is_bp_recv (a : act) : bool := match a with ARecv (EvBp _ _) => true | _ => false end.
Definition count (f : act -> bool) (l : list act) : nat := length (filter f l).

Definition mem (r : rule) (b : list rule) : bool := existsb (Nat.eqb r) b.
Definition remove_rule (r : rule) (b : list rule) : list rule := filter (fun x => negb (Nat.eqb r x)) b.

Definition next_pc (es : list entry) (o : outcome) : ppc :=
  match es with [] => PFinal (ev_of o) | _ :: _ => PLoad es o end.

Definition set_c (s : state) (pc : cpc) : state :=
  {| cmds := cmds s; c_pc := pc; p_pc := p_pc s; handle := handle s; token := token s; is_done := is_done s;
     bps := bps s; mtx := mtx s; chan := chan s; log := log s; undisc := undisc s; out := out s; cur_es := cur_es s; cur_o := cur_o s |}.
Definition set_p (s : state) (pc : ppc) : state :=
  {| cmds := cmds s; c_pc := c_pc s; p_pc := pc; handle := handle s; token := token s; is_done := is_done s;
     bps := bps s; mtx := mtx s; chan := chan s; log := log s; undisc := undisc s; out := out s; cur_es := cur_es s; cur_o := cur_o s |}.
Definition add_log (s : state) (a : act) : state :=
  {| cmds := cmds s; c_pc := c_pc s; p_pc := p_pc s; handle := handle s; token := token s; is_done := is_done s;
     bps := bps s; mtx := mtx s; chan := chan s; log := a :: log s; undisc := undisc s; out := out s; cur_es := cur_es s; cur_o := cur_o s |}.
Definition add_out (s : state) (x : obs) : state :=
  {| cmds := cmds s; c_pc := c_pc s; p_pc := p_pc s; handle := handle s; token := token s; is_done := is_done s;
     bps := bps s; mtx := mtx s; chan := chan s; log := log s; undisc := undisc s; out := x :: out s; cur_es := cur_es s; cur_o := cur_o s |}.
Definition set_token (s : state) (b : bool) : state :=
  {| cmds := cmds s; c_pc := c_pc s; p_pc := p_pc s; handle := handle s; token := b; is_done := is_done s;
     bps := bps s; mtx := mtx s; chan := chan s; log := log s; undisc := undisc s; out := out s; cur_es := cur_es s; cur_o := cur_o s |}.
Definition set_done (s : state) (b : bool) : state :=
  {| cmds := cmds s; c_pc := c_pc s; p_pc := p_pc s; handle := handle s; token := token s; is_done := b;
     bps := bps s; mtx := mtx s; chan := chan s; log := log s; undisc := undisc s; out := out s; cur_es := cur_es s; cur_o := cur_o s |}.
Definition set_chan (s : state) (c : list event) : state :=
  {| cmds := cmds s; c_pc := c_pc s; p_pc := p_pc s; handle := handle s; token := token s; is_done := is_done s;
     bps := bps s; mtx := mtx s; chan := c; log := log s; undisc := undisc s; out := out s; cur_es := cur_es s; cur_o := cur_o s |}.
Definition set_mtx (s : state) (b : bool) : state :=
  {| cmds := cmds s; c_pc := c_pc s; p_pc := p_pc s; handle := handle s; token := token s; is_done := is_done s;
     bps := bps s; mtx := b; chan := chan s; log := log s; undisc := undisc s; out := out s; cur_es := cur_es s; cur_o := cur_o s |}.
Definition set_bps (s : state) (b : list rule) : state :=
  {| cmds := cmds s; c_pc := c_pc s; p_pc := p_pc s; handle := handle s; token := token s; is_done := is_done s;
     bps := b; mtx := mtx s; chan := chan s; log := log s; undisc := undisc s; out := out s; cur_es := cur_es s; cur_o := cur_o s |}.

(* blocking send on the bounded channel: enabled iff there is room *)
Definition send (cf : config) (s : state) (ev : event) : option state :=
  if length (chan s) <? cap cf then Some (add_log (set_chan s (chan s ++ [ev])) (ASend ev)) else None.

(* ---- the parsing thread: handle()'s closure and the listener, one control point per step ---- *)
Definition step_p (cf : config) (s : state) : option state :=
  match p_pc s with
  | PNone | PDone | PDead => None
  | PStart es o => Some (set_p s (next_pc es o))
  | PLoad [] _ => None                                            (* not a control point (next_pc never yields it) *)
  | PLoad (e :: es) o =>
      if is_done s then                                            (* return true: the VM fails every further rule *)
        Some (add_log (set_p s (if e_panic e then PDead else PFinal EvAbort)) AAbort)
      else Some (set_p s (PLock e es o))
  | PLock e es o =>                                              (* Mutex::lock blocks while the guard is held elsewhere *)
      if mtx s then None else Some (set_mtx (set_p s (PHeld e es o)) true)
  | PHeld e es o =>
      let b := mem (e_rule e) (bps s) in
      Some (add_log (set_mtx (set_p s (if b then PSend e es o else next_pc es o)) false) (ALook e (bps s)))
  | PSend e es o =>
      match send cf s (EvBp (e_rule e) (e_pos e)) with
      | Some s' => Some (set_p s' (PPark es o))
      | None => None
      end
  | PPark es o =>
      if token s || spur cf then Some (add_log (set_token (set_p s (next_pc es o)) false) AWake) else None
  | PFinal ev =>
      if fixed cf then
        (if is_done s then Some (set_p s PStore) else Some (set_p s (PFinalSend ev)))
      else match send cf s ev with Some s' => Some (set_p s' PStore) | None => None end
  | PFinalSend ev =>
      match send cf s ev with Some s' => Some (set_p s' PStore) | None => None end
  | PStore => Some (set_done (set_p s PExit) true)
  | PExit => Some (set_p s PDone)
  end.

(* ---- the controller: run(), cont(), breakpoint edits, recv ---- *)
Definition pop_cmd (s : state) (cs : list cmd) : state :=
  {| cmds := cs; c_pc := c_pc s; p_pc := p_pc s; handle := handle s; token := token s; is_done := is_done s;
     bps := bps s; mtx := mtx s; chan := chan s; log := log s; undisc := undisc s; out := out s; cur_es := cur_es s; cur_o := cur_o s |}.
Definition set_handle (s : state) (b : bool) : state :=
  {| cmds := cmds s; c_pc := c_pc s; p_pc := p_pc s; handle := b; token := token s; is_done := is_done s;
     bps := bps s; mtx := mtx s; chan := chan s; log := log s; undisc := undisc s; out := out s; cur_es := cur_es s; cur_o := cur_o s |}.
Definition isnil {A} (l : list A) : bool := match l with [] => true | _ => false end.

Definition spawn (s : state) (es : list entry) (o : outcome) : state :=
  {| cmds := cmds s; c_pc := CIdle; p_pc := PStart es o; handle := true; token := false; is_done := is_done s;
     bps := bps s; mtx := mtx s; chan := []; log := []; undisc := false; out := out s; cur_es := es; cur_o := o |}.
Definition set_undisc (s : state) (b : bool) : state :=
  {| cmds := cmds s; c_pc := c_pc s; p_pc := p_pc s; handle := handle s; token := token s; is_done := is_done s;
     bps := bps s; mtx := mtx s; chan := chan s; log := log s; undisc := b; out := out s; cur_es := cur_es s; cur_o := cur_o s |}.

Definition add_rules (rs b : list rule) : list rule :=
  fold_left (fun b r => if mem r b then b else r :: b) rs b.

Definition step_c (cf : config) (s : state) : option state :=
  match c_pc s with
  | CIdle =>
      match cmds s with
      | [] => None
      | CRun es o :: cs =>
          let s := pop_cmd s cs in
          if handle s then Some (set_c (set_handle s false) (RLoad (isnil (chan s)) es o))   (* self.handle.take() *)
          else Some (set_c s (RReset es o))
      | CCont :: cs => Some (set_c (pop_cmd s cs) KLoad)
      | CAdd rs :: cs => if mtx s then None else Some (set_mtx (set_c (pop_cmd s cs) (EAdd rs)) true)
      | CDel r :: cs => if mtx s then None else Some (set_mtx (set_c (pop_cmd s cs) (EDel r)) true)
      | CRecv :: cs =>
          match p_pc s, chan s with
          | PNone, _ => Some (add_out (pop_cmd s cs) ONoRx)               (* no run yet: there is no receiver *)
          | _, ev :: ch => Some (add_log (add_out (set_chan (pop_cmd s cs) ch) (ORecv ev)) (ARecv ev))
          | PDone, [] | PDead, [] => Some (add_out (pop_cmd s cs) ODisc)  (* both senders dropped *)
          | _, [] => None                                                 (* recv blocks *)
          end
      end
  | RLoad d es o => Some (set_c s (if is_done s then RJoin d es o else RStore d es o))
  | RStore d es o => Some (set_done (set_c s (RUnpark d es o)) true)
  | RUnpark d es o => Some (add_log (set_token (set_c s (RJoin d es o)) true) AKick)
  | RJoin d es o =>
      match p_pc s with
      | PDone => Some (set_c s (RReset es o))
      | PDead => Some (add_out (set_c s CIdle) ORunPanic)       (* `?` on the join error: early return, handle stays None *)
      | _ => None
      end
  | RReset es o => Some (set_done (set_c s (RSpawn es o)) false)
  | RSpawn es o => Some (spawn s es o)
  | KLoad =>
      if is_done s then Some (add_out (set_c s CIdle) OContEof)
      else if handle s then Some (set_c s KUnpark)
      else Some (add_out (set_c s CIdle) OContNoRun)
  | EAdd rs => Some (set_mtx (set_bps (set_c s CIdle) (add_rules rs (bps s))) false)
  | EDel r => Some (set_mtx (set_bps (set_c s CIdle) (remove_rule r (bps s))) false)
  | KUnpark =>
      let disciplined := count is_cont (log s) <? count is_bp_recv (log s) in
      Some (add_out (add_log (set_undisc (set_token (set_c s CIdle) true) (undisc s || negb disciplined)) ACont) OContOk)
  end.

Definition step (cf : config) (s : state) (t : tid) : option state :=
  match t with C => step_c cf s | P => step_p cf s end.

(* A schedule is a list of thread ids; it is an execution iff every step is enabled. *)
Fixpoint exec (cf : config) (s : state) (sch : list tid) : option state :=
  match sch with
  | [] => Some s
  | t :: sch' => match step cf s t with Some s' => exec cf s' sch' | None => None end
  end.

Definition reachable (cf : config) (cs : list cmd) (b : list rule) (s : state) : Prop :=
  exists sch, exec cf (init cs b) sch = Some s.

Definition enabled (cf : config) (s : state) (t : tid) : bool :=
  match step cf s t with Some _ => true | None => false end.

(* the controller has finished its command list *)
Definition c_finished (s : state) : bool :=
  match c_pc s, cmds s with CIdle, [] => true | _, _ => false end.

(* both threads are stuck although the controller still has work: a hang *)
Definition deadlocked (cf : config) (s : state) : bool :=
  negb (enabled cf s C) && negb (enabled cf s P) && negb (c_finished s).

(* the three configurations used below; 1 is the capacity main.rs and the test-suite use *)
Definition literal (k : nat) : config := {| fixed := false; spur := false; cap := k |}.
Definition repaired (k : nat) : config := {| fixed := true; spur := false; cap := k |}.
Definition spurious (k : nat) : config := {| fixed := true; spur := true; cap := k |}.
