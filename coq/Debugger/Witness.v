(* C17 - concrete schedules (kernel-evaluated): the hang of the code as it is, the limits of the repair,
   what a spurious wake-up would allow, and non-vacuity runs. *)
From Coq Require Import List Arith Bool.
Import ListNotations.
Require Import PV.Debugger.Proto PV.Debugger.Spec.

(* a parse with three rule entries, all of rule 0 *)
Definition w_es : list entry := [((0, 0), false); ((0, 5), false); ((0, 7), false)].

(* DESIGN.md section 4 row 12: breakpoint on the rule; run, receive the first event, cont, run again.
   The parsing thread has passed the flag load of its second entry when run() raises the flag. *)
Definition w1_cmds : list cmd := [CRun w_es OEof; CRecv; CCont; CRun w_es OEof].
Definition w1_sched : list tid :=
  [C;C;C; P;P;P;P;P; C; C;C;C; P;P; C;C;C;C; P;P;P;P;P].

Lemma rerun_hangs_literal :
  exists s, exec (literal 1) (init w1_cmds [0]) w1_sched = Some s /\
            in_join_drained s = true /\ disciplined s = true /\ deadlocked (literal 1) s = true /\
            p_pc s = PFinal EvAbort /\ chan s = [EvBp 0 5].
Proof. eexists. vm_compute. repeat split; reflexivity. Qed.

(* the same schedule on the repaired code does not hang *)
Lemma rerun_w1_repaired :
  exists s, exec (repaired 1) (init w1_cmds [0]) w1_sched = Some s /\ deadlocked (repaired 1) s = false.
Proof. eexists. vm_compute. split; reflexivity. Qed.

(* cont() twice for one received event leaves a stale park token: the parsing thread delivers two
   events between run()'s flag load and its flag store and blocks in send; no 3-line repair of the
   final send helps.  Outside the class for which the repaired code is proved (disciplined = false). *)
Definition w2_cmds : list cmd := [CRun w_es OEof; CRecv; CCont; CCont; CRun w_es OEof].
Definition w2_sched : list tid :=
  [C;C;C; P;P;P;P;P; C; C;C;C; P; C;C;C; C; P;P;P;P;P;P;P;P; C;C;C].

Lemma rerun_hangs_repaired_undisciplined :
  exists s, exec (repaired 1) (init w2_cmds [0]) w2_sched = Some s /\
            in_join_drained s = true /\ disciplined s = false /\ deadlocked (repaired 1) s = true.
Proof. eexists. vm_compute. repeat split; reflexivity. Qed.

(* code as it is: run, receive, run again delivers the breakpoint event AND the abort error: 2 > 1 + 0 *)
Definition w3_cmds : list cmd := [CRun w_es OEof; CRecv; CRun w_es OEof].
Definition w3_sched : list tid :=
  [C;C;C; P;P;P;P;P; C; C;C;C;C; P;P;P;P;P].

Lemma count_exceeded_literal :
  exists s, exec (literal 1) (init w3_cmds [0]) w3_sched = Some s /\
            sends (log s) = [EvBp 0 0; EvAbort] /\ count is_cont (log s) = 0.
Proof. eexists. vm_compute. repeat split; reflexivity. Qed.

(* what a spurious wake-up (std documents that park() may return without unpark) would allow:
   a second breakpoint event is delivered although nobody continued *)
Definition w4_cmds : list cmd := [CRun w_es OEof].
Definition w4_sched : list tid :=
  [C;C;C; P;P;P;P;P; P;P;P;P;P].

Lemma spurious_wakeup_breaks_quiet :
  exists s, exec (spurious 2) (init w4_cmds [0]) w4_sched = Some s /\
            sends (log s) = [EvBp 0 0; EvBp 0 5] /\ count is_cont (log s) = 0 /\ count is_kick (log s) = 0 /\
            exec (repaired 2) (init w4_cmds [0]) w4_sched = None.
Proof. eexists. vm_compute. repeat split; reflexivity. Qed.

(* non-vacuity: the flow of the crate's test_full_flow (two hits, two conts, Eof), interleaved *)
Definition nv_es : list entry := [((3, 0), false); ((2, 0), false); ((1, 0), false); ((2, 2), false); ((0, 2), false)].
Definition nv_cmds : list cmd := [CRun nv_es OEof; CRecv; CCont; CRecv; CCont; CRecv].
Definition nv_sched : list tid :=
  [C;C;C; P;P;P;P;P;P;P;P; C; C;C;C; P;P;P;P;P;P;P;P; C; C;C;C; P;P;P;P;P;P;P;P; C].

Lemma full_flow_example :
  exists s, exec (repaired 1) (init nv_cmds [2]) nv_sched = Some s /\
            rev (out s) = [ORecv (EvBp 2 0); OContOk; ORecv (EvBp 2 2); OContOk; ORecv EvEof] /\
            c_finished s = true /\ p_pc s = PDone.
Proof. eexists. vm_compute. repeat split; reflexivity. Qed.

(* non-vacuity of the progress theorem: a disciplined drained re-run that is sitting in join *)
Lemma rerun_join_example :
  exists s, exec (repaired 1) (init w1_cmds [0]) [C;C;C; P;P;P;P;P; C; C;C;C; P;P; C;C;C;C] = Some s /\
            in_join_drained s = true /\ disciplined s = true /\ enabled (repaired 1) s P = true.
Proof. eexists. vm_compute. repeat split; reflexivity. Qed.
