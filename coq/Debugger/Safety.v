(* C17 - the delivered events are exactly the breakpoint hits of the parse, then the outcome. *)
From Coq Require Import List Arith Bool Lia.
Import ListNotations.
Require Import PV.Debugger.Proto PV.Debugger.Spec PV.Debugger.Tactics PV.Debugger.Struct.

Lemma hits_snoc : forall lk x, hits (lk ++ [x]) = hits lk ++ (if hit x then [bp_event x] else []).
Proof.
  intros. unfold hits. rewrite filter_app, map_app. cbn [filter]. destruct (hit x); reflexivity.
Qed.

Arguments hits : simpl never.
Arguments mem : simpl never.
Lemma hits_nil : hits [] = []. Proof. reflexivity. Qed.

Definition pre (s : state) : Prop := exists rest, map fst (looks (log s)) ++ rest = cur_es s.

(* what is known at each control point of the parsing thread *)
Definition safe_inv (cf : config) (s : state) : Prop :=
  let lk := looks (log s) in
  let sd := sends (log s) in
  let ab := aborted (log s) in
  match p_pc s with
  | PNone => True
  | PStart es o => es = cur_es s /\ o = cur_o s /\ lk = [] /\ sd = [] /\ ab = false
  | PLoad es o | PPark es o =>
      o = cur_o s /\ map fst lk ++ es = cur_es s /\ sd = hits lk /\ ab = false
  | PLock e es o | PHeld e es o =>
      o = cur_o s /\ map fst lk ++ e :: es = cur_es s /\ sd = hits lk /\ ab = false
  | PSend e es o =>
      o = cur_o s /\ map fst lk ++ es = cur_es s /\ ab = false /\
      exists lk0 bs, lk = lk0 ++ [(e, bs)] /\ hit (e, bs) = true /\ sd = hits lk0
  | PFinal ev =>
      sd = hits lk /\
      ((ev = ev_of (cur_o s) /\ map fst lk = cur_es s /\ ab = false) \/ (ev = EvAbort /\ ab = true /\ pre s))
  | PFinalSend ev =>     (* only reached in the repaired code, with the flag down: not after an abort *)
      sd = hits lk /\ ev = ev_of (cur_o s) /\ map fst lk = cur_es s /\ ab = false
  | PStore | PExit | PDone =>
      pre s /\
      (sd = hits lk \/
       (sd = hits lk ++ [ev_of (cur_o s)] /\ map fst lk = cur_es s /\ ab = false) \/
       (sd = hits lk ++ [EvAbort] /\ fixed cf = false /\ ab = true))
  | PDead => pre s /\ sd = hits lk /\ ab = true
  end.

Lemma safe_init : forall cf cs b, safe_inv cf (init cs b).
Proof. intros. exact I. Qed.

Lemma pre_intro : forall (l : list (entry * list rule)) es ce, map fst l ++ es = ce -> exists rest, map fst l ++ rest = ce.
Proof. intros. eauto. Qed.

Lemma safe_step : forall cf s t s',
  struct_inv s -> safe_inv cf s -> step cf s t = Some s' -> safe_inv cf s'.
Proof.
  intros cf s t s' Hst Hi H. destruct cf as [fx sp cp0].
  destruct t.
  - (* controller steps never touch the parsing thread's facts, except spawn *)
    step_inv s H; unfold safe_inv, pre in *; cbn in *; try exact Hi; try (destruct pp; exact Hi);
      try (destruct pp; cbn in *; intuition congruence).
  - step_inv s H; unfold safe_inv, pre, struct_inv, p_gone in *; cbn in *.
    all: repeat match goal with |- context [next_pc ?es ?o] => destruct es; cbn end.
    all: repeat match goal with
         | H : _ /\ _ |- _ => destruct H
         | H : exists _, _ |- _ => destruct H
         end; subst; cbn in *.
    all: repeat match goal with
         | H : looks _ = [] |- _ => rewrite H in *
         | H : sends _ = [] |- _ => rewrite H in *
         | H : mem _ _ = _ |- _ => rewrite H in *
         end.
    all: unfold hit in *; cbn [fst snd] in *.
    all: repeat match goal with H : mem _ _ = _ |- _ => rewrite H in * end.
    all: rewrite ?map_app, ?hits_snoc, ?hits_nil, ?app_nil_r, <- ?app_assoc in *; cbn [map fst snd app] in *.
    all: unfold hit in *; cbn [fst snd] in *.
    all: repeat match goal with H : mem _ _ = _ |- _ => rewrite H in * end.
    all: rewrite ?app_nil_r in *.
    all: try solve [intuition (eauto; try congruence)].
    all: try solve [repeat split; eauto; try congruence; try (left; repeat split; eauto; congruence)].
    all: try solve [match goal with H2 : looks _ = _ ++ [_], H8 : sends _ = hits _, H7 : mem _ _ = true |- _ =>
           rewrite H2, H8, hits_snoc; unfold hit; cbn [fst snd]; rewrite H7; unfold bp_event; cbn [fst snd];
           repeat split; auto end].
    all: try match goal with H : _ \/ _ |- _ => destruct H as [(?&?&?)|(?&?&?)] end; subst.
    all: try match goal with H : ?P -> _ -> _ -> true = true |- _ => clear H end.
    all: try match goal with H : ?a = true, H' : ?a = true -> _ -> _ -> false = true |- _ =>
           exfalso; specialize (H' H); assert (false = true) by (apply H'; discriminate); discriminate end.
    all: try solve [split; [first [eassumption | exists []; apply app_nil_r] | auto 6]].
    all: try solve [repeat split; auto].
    all: try solve [split; [first [eassumption | exists []; apply app_nil_r] | rewrite ?H; auto 8 ]].
Qed.

Lemma safe_reachable : forall cf cs b s, reachable cf cs b s -> safe_inv cf s /\ struct_inv s.
Proof.
  intros cf cs b s Hr. split; [|eapply struct_reachable; eauto].
  revert cs b s Hr.
  apply (reachable_ind cf (fun s => safe_inv cf s /\ struct_inv s)).
  - intros. split; [apply safe_init | apply struct_init].
  - intros s t s' [H1 H2] Hs. split; [eapply safe_step | eapply struct_step]; eauto.
Qed.


Lemma firstn_app_exact : forall (A : Type) (l r : list A), firstn (length l) (l ++ r) = l.
Proof. intros. rewrite firstn_app, Nat.sub_diag, firstn_all. cbn. apply app_nil_r. Qed.

Lemma pre_firstn : forall (l ce : list entry), (exists rest, l ++ rest = ce) -> exists n, l = firstn n ce.
Proof. intros l ce [rest <-]. exists (length l). symmetry. apply firstn_app_exact. Qed.

(* THE SAFETY THEOREM: in every reachable state (any grammar's entry list, breakpoint set, command
   history, schedule; any channel capacity; with or without the repair) the delivered events are
   exactly the breakpoint hits of a prefix of the parse, followed at most by the outcome. *)
Ltac fin := cbn [app]; rewrite ?app_nil_r; repeat split; eauto 8.

Theorem delivery_exact : forall cf cs b s,
  reachable cf cs b s -> delivery_ok (negb (fixed cf)) s.
Proof.
  intros cf cs b s Hr. destruct (safe_reachable _ _ _ _ Hr) as [Hs Hst].
  destruct Hst as (_ & _ & _ & Hnone & _).
  unfold delivery_ok, safe_inv, pre in *.
  destruct (p_pc s) eqn:Epc.
  - (* PNone *) rewrite (Hnone eq_refl). exists [], [], [], 0. fin.
  - destruct Hs as (-> & -> & H1 & H2 & H3). rewrite H1, H2. exists [], [], [], 0. fin.
  - destruct Hs as (-> & H1 & H2 & H3).
    exists (looks (log s)), [], [], (length (map fst (looks (log s)))).
    rewrite app_nil_r, <- H1, firstn_app_exact. fin.
  - destruct Hs as (-> & H1 & H2 & H3).
    exists (looks (log s)), [], [], (length (map fst (looks (log s)))).
    rewrite app_nil_r, <- H1, firstn_app_exact. fin.
  - destruct Hs as (-> & H1 & H2 & H3).
    exists (looks (log s)), [], [], (length (map fst (looks (log s)))).
    rewrite app_nil_r, <- H1, firstn_app_exact. fin.
  - destruct Hs as (-> & H1 & H3 & lk0 & bs & H4 & H5 & H6).
    exists lk0, [(e, bs)], [], (length (map fst (looks (log s)))).
    rewrite app_nil_r, <- H1, firstn_app_exact. fin.
  - destruct Hs as (-> & H1 & H2 & H3).
    exists (looks (log s)), [], [], (length (map fst (looks (log s)))).
    rewrite app_nil_r, <- H1, firstn_app_exact. fin.
  - destruct Hs as (H1 & [(H2 & H3 & H4)|(H2 & H3 & H4)]).
    + exists (looks (log s)), [], [], (length (cur_es s)). rewrite app_nil_r, H3, firstn_all. fin.
    + destruct (pre_firstn _ _ H4) as [n Hn]. exists (looks (log s)), [], [], n. rewrite app_nil_r. fin.
  - destruct Hs as (H1 & H2 & H3 & H4).
    exists (looks (log s)), [], [], (length (cur_es s)). rewrite app_nil_r, H3, firstn_all. fin.
  - destruct Hs as (Hp & Ht). destruct (pre_firstn _ _ Hp) as [n Hn].
    destruct Ht as [Ht|[(Ht & H3 & H4)|(Ht & H3 & H4)]].
    + exists (looks (log s)), [], [], n. rewrite app_nil_r. fin.
    + exists (looks (log s)), [], [ev_of (cur_o s)], n. rewrite app_nil_r. fin.
    + exists (looks (log s)), [], [EvAbort], n. rewrite app_nil_r, H3. fin.
  - destruct Hs as (Hp & Ht). destruct (pre_firstn _ _ Hp) as [n Hn].
    destruct Ht as [Ht|[(Ht & H3 & H4)|(Ht & H3 & H4)]].
    + exists (looks (log s)), [], [], n. rewrite app_nil_r. fin.
    + exists (looks (log s)), [], [ev_of (cur_o s)], n. rewrite app_nil_r. fin.
    + exists (looks (log s)), [], [EvAbort], n. rewrite app_nil_r, H3. fin.
  - destruct Hs as (Hp & Ht). destruct (pre_firstn _ _ Hp) as [n Hn].
    destruct Ht as [Ht|[(Ht & H3 & H4)|(Ht & H3 & H4)]].
    + exists (looks (log s)), [], [], n. rewrite app_nil_r. fin.
    + exists (looks (log s)), [], [ev_of (cur_o s)], n. rewrite app_nil_r. fin.
    + exists (looks (log s)), [], [EvAbort], n. rewrite app_nil_r, H3. fin.
  - destruct Hs as (Hp & Ht & Hab). destruct (pre_firstn _ _ Hp) as [n Hn].
    exists (looks (log s)), [], [], n. rewrite app_nil_r. fin.
Qed.
