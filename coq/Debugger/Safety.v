(* C17 - the delivered events are exactly the breakpoint hits of the parse, then the outcome. *)
From Coq Require Import List Arith Bool Lia.
Import ListNotations.
Require Import PV.Debugger.Proto PV.Debugger.Spec PV.Debugger.Tactics PV.Debugger.Struct.

Lemma hits_snoc : forall lk x, hits (lk ++ [x]) = hits lk ++ (if hit x then [bp_event x] else []).
Proof.
  intros. unfold hits. rewrite filter_app, map_app. cbn [filter]. destruct (hit x); reflexivity.
Qed.

Arguments hits : simpl never.
Arguments mem : simpl never.
Lemma hits_nil : hits [] = []. Proof. reflexivity. Qed.

Definition pre (s : state) : Prop := exists rest, map fst (looks (log s)) ++ rest = cur_es s.

(* what is known at each control point of the parsing thread *)
Definition safe_inv (cf : config) (s : state) : Prop :=
  let lk := looks (log s) in
  let sd := sends (log s) in
  let ab := aborted (log s) in
  match p_pc s with
  | PNone => True
  | PStart es o => es = cur_es s /\ o = cur_o s /\ lk = [] /\ sd = [] /\ ab = false
  | PLoad es o | PPark es o =>
      o = cur_o s /\ map fst lk ++ es = cur_es s /\ sd = hits lk /\ ab = false
  | PLock e es o =>
      o = cur_o s /\ map fst lk ++ e :: es = cur_es s /\ sd = hits lk /\ ab = false
  | PSend e es o =>
      o = cur_o s /\ map fst lk ++ es = cur_es s /\ ab = false /\
      exists lk0 bs, lk = lk0 ++ [(e, bs)] /\ hit (e, bs) = true /\ sd = hits lk0
  | PFinal ev | PFinalSend ev =>
      sd = hits lk /\
      ((ev = ev_of (cur_o s) /\ map fst lk = cur_es s /\ ab = false) \/ (ev = EvAbort /\ ab = true /\ pre s))
  | PStore | PExit | PDone =>
      pre s /\
      (sd = hits lk \/
       (sd = hits lk ++ [ev_of (cur_o s)] /\ map fst lk = cur_es s /\ ab = false) \/
       (sd = hits lk ++ [EvAbort] /\ fixed cf = false /\ ab = true))
  | PDead => pre s /\ sd = hits lk /\ ab = true
  end.

Lemma safe_init : forall cf cs b, safe_inv cf (init cs b).
Proof. intros. exact I. Qed.

Lemma pre_intro : forall (l : list (entry * list rule)) es ce, map fst l ++ es = ce -> exists rest, map fst l ++ rest = ce.
Proof. intros. eauto. Qed.

Lemma safe_step : forall cf s t s',
  struct_inv s -> safe_inv cf s -> step cf s t = Some s' -> safe_inv cf s'.
Proof.
  intros cf s t s' Hst Hi H. destruct cf as [fx sp cp0].
  destruct t.
  - (* controller steps never touch the parsing thread's facts, except spawn *)
    step_inv s H; unfold safe_inv, pre in *; cbn in *; try exact Hi; try (destruct pp; exact Hi);
      try (destruct pp; cbn in *; intuition congruence).
  - step_inv s H; unfold safe_inv, pre, struct_inv, p_gone in *; cbn in *.
    all: repeat match goal with |- context [next_pc ?es ?o] => destruct es; cbn end.
    all: repeat match goal with
         | H : _ /\ _ |- _ => destruct H
         | H : exists _, _ |- _ => destruct H
         end; subst; cbn in *.
    all: repeat match goal with
         | H : looks _ = [] |- _ => rewrite H in *
         | H : sends _ = [] |- _ => rewrite H in *
         | H : mem _ _ = _ |- _ => rewrite H in *
         end.
    all: unfold hit in *; cbn [fst snd] in *.
    all: repeat match goal with H : mem _ _ = _ |- _ => rewrite H in * end.
    all: rewrite ?map_app, ?hits_snoc, ?hits_nil, ?app_nil_r, <- ?app_assoc in *; cbn [map fst snd app] in *.
    all: unfold hit in *; cbn [fst snd] in *.
    all: repeat match goal with H : mem _ _ = _ |- _ => rewrite H in * end.
    all: rewrite ?app_nil_r in *.
    all: try solve [intuition (eauto; try congruence)].
    all: try solve [repeat split; eauto; try congruence; try (left; repeat split; eauto; congruence)].
    all: idtac "left". Show.
Abort.
