(* C17 - what the property says, as predicates over the ghost log of a run.
   The log of a state is newest-first and belongs to the CURRENT run (it is reset when run() spawns
   the next parsing thread); since every prefix of an execution ends in a reachable state, a
   predicate that holds of the log in every reachable state holds "at all times" and for every
   run (the state just before the next spawn carries the complete log of the finished run). *)
From Coq Require Import List Arith Bool.
Import ListNotations.
Require Import PV.Debugger.Proto.

(* chronological projections of a newest-first log *)
Fixpoint looks (l : list act) : list (entry * list rule) :=
  match l with
  | [] => []
  | ALook e bs :: l' => looks l' ++ [(e, bs)]
  | _ :: l' => looks l'
  end.
Fixpoint sends (l : list act) : list event :=
  match l with
  | [] => []
  | ASend ev :: l' => sends l' ++ [ev]
  | _ :: l' => sends l'
  end.
Definition aborted (l : list act) : bool := existsb (fun a => match a with AAbort => true | _ => false end) l.

(* the breakpoint-filtered entries: a lookup hits iff the rule was in the set at that moment *)
Definition hit (x : entry * list rule) : bool := mem (e_rule (fst x)) (snd x).
Definition bp_event (x : entry * list rule) : event := EvBp (e_rule (fst x)) (e_pos (fst x)).
Definition hits (lk : list (entry * list rule)) : list event := map bp_event (filter hit lk).

(* --- 1. exactly the breakpoint hits, then the outcome -------------------------------------- *)
(* The delivered (= sent) events of the run are the hits among the entries looked up so far (all of
   them, or all but the newest one whose event is about to be sent), the looked-up entries are a
   prefix of the parse, and the only thing that may follow is ONE final event: the outcome of the
   plain parse, and only if every entry was looked up and the parse was not aborted.  [abort_tail]
   says whether an aborted run may deliver the abort error as well (true for the code as it is). *)
Definition delivery_ok (abort_tail : bool) (s : state) : Prop :=
  exists lk pend tail n,
    looks (log s) = lk ++ pend /\ (pend = [] \/ exists x, pend = [x] /\ hit x = true) /\
    map fst (looks (log s)) = firstn n (cur_es s) /\
    sends (log s) = hits lk ++ tail /\
    (tail = [] \/
     (tail = [ev_of (cur_o s)] /\ pend = [] /\ map fst lk = cur_es s /\ aborted (log s) = false) \/
     (tail = [EvAbort] /\ abort_tail = true /\ aborted (log s) = true)).

(* --- 2. quiet while parked ----------------------------------------------------------------- *)
(* At all times: every delivered breakpoint event but the newest has been followed by a return of
   park(), and every return of park() is paid for by an earlier unpark (cont, or the re-run's kick).
   Hence between a delivered breakpoint event and the next delivery lies a wake-up, and the number
   of wake-ups never exceeds the number of unparks. *)
Definition parked (s : state) : nat := match p_pc s with PPark _ _ => 1 | _ => 0 end.
Definition quiet_ok (s : state) : Prop :=
  count is_bp_send (log s) = count is_wake (log s) + parked s /\
  count is_wake (log s) + Nat.b2n (token s) <= count is_cont (log s) + count is_kick (log s) /\
  count is_send (log s) <= count is_bp_send (log s) + 1.

(* --- 3. one delivery per continue ------------------------------------------------------------ *)
Definition count_ok (s : state) : Prop := count is_send (log s) <= 1 + count is_cont (log s).
Definition count_weak_ok (s : state) : Prop :=
  count is_send (log s) <= 1 + count is_cont (log s) + count is_kick (log s).

(* --- 4. a re-run terminates the previous run ------------------------------------------------ *)
(* The controller is inside run(), waiting in join, and had received every delivered event when it
   called run() (flag d of the control point). *)
Definition in_join_drained (s : state) : bool :=
  match c_pc s with RJoin true _ _ => true | _ => false end.
(* progress: in such a state the parsing thread has finished (join returns) or can take a step;
   together with termination (every schedule is finite, C17_all_schedules_finite) no schedule
   leads to a state in which both threads wait for ever. *)
Definition join_progress (cf : config) (s : state) : Prop :=
  in_join_drained s = true -> enabled cf s C = true \/ enabled cf s P = true.

(* the controller's discipline under which the repaired code is proved: cont() is only called to
   answer a received breakpoint event that has not been answered yet *)
Definition disciplined (s : state) : bool := negb (undisc s).
