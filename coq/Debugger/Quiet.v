(* C17 - quiet while parked; at most one delivery per unpark (both versions of the code). *)
From Coq Require Import List Arith Bool Lia.
Import ListNotations.
Require Import PV.Debugger.Proto PV.Debugger.Spec PV.Debugger.Tactics.

(* final event sent => the thread is past its send *)
Definition past_final (s : state) : Prop :=
  count is_send (log s) = count is_bp_send (log s) \/
  (count is_send (log s) = count is_bp_send (log s) + 1 /\
   match p_pc s with PStore | PExit | PDone => True | _ => False end).

(* the final event is never a breakpoint event *)
Definition final_ev_ok (s : state) : Prop :=
  match p_pc s with PFinal (EvBp _ _) | PFinalSend (EvBp _ _) => False | _ => True end.

Definition quiet_inv (s : state) : Prop := quiet_ok s /\ past_final s /\ final_ev_ok s.

Lemma quiet_init : forall cs b, quiet_inv (init cs b).
Proof. intros. unfold quiet_inv, quiet_ok, past_final, final_ev_ok. cbn. intuition lia. Qed.

Lemma quiet_step : forall cf s t s', spur cf = false ->
  quiet_inv s -> step cf s t = Some s' -> quiet_inv s'.
Proof.
  intros cf s t s' Hsp Hi H. destruct cf as [fx sp cp0]. cbn in Hsp. subst sp.
  destruct t; step_inv s H;
    unfold quiet_inv, quiet_ok, past_final, final_ev_ok, parked, count in *; cbn in *;
    repeat match goal with |- context [next_pc ?es ?o] => destruct es; cbn end;
    repeat match goal with |- context [ev_of ?o] => destruct o; cbn end;
    repeat match goal with e : event |- _ => destruct e; cbn in * end;
    try (destruct tk; cbn in *); try discriminate;
    try lia; intuition lia.
Qed.

Lemma quiet_reachable : forall cf cs b s, spur cf = false -> reachable cf cs b s -> quiet_inv s.
Proof.
  intros cf cs b s Hsp. apply reachable_ind; [apply quiet_init|].
  intros; eapply quiet_step; eauto.
Qed.

Theorem quiet_while_parked : forall cf cs b s, spur cf = false -> reachable cf cs b s -> quiet_ok s.
Proof. intros. eapply quiet_reachable; eauto. Qed.

Theorem deliveries_le_unparks : forall cf cs b s, spur cf = false -> reachable cf cs b s -> count_weak_ok s.
Proof.
  intros cf cs b s Hsp Hr. destruct (quiet_reachable _ _ _ _ Hsp Hr) as [(Q1 & Q2 & Q3) [P _]].
  unfold count_weak_ok, past_final, parked in *.
  destruct P as [P|[P Hpc]]; destruct (p_pc s); try contradiction; lia.
Qed.
