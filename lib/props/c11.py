"""C11 - the backtracking stack is transactional for every history."""
from common import *

META = {
    "property_id": "C11",
    "level": "proof",
    "technique": "Coq proof by representation invariant + refinement to a full-copy stack (induction over histories); model tied to stack.rs by exhaustive/random differential runs of the extracted model",
    "text": "Theorem C11_stack_transactional (coq/props/C11.v, closed under the global context): for every finite history the "
            "model of pest/src/stack.rs never panics and its contents/returned elements after each operation equal the naive "
            "full-copy model's; corollaries C11_checkpoint_restore / C11_checkpoint_clear (coq/Stack/Laws.v): at every reachable state and nesting depth "
            "`snapshot; well-bracketed body; restore` is invisible to every continuation and `...; clear_snapshot` leaves the enclosing saved copies untouched. The model is tied to the code on every run: pest::Stack<u8> and the extracted model are run on all "
            "histories up to a length bound and on long random nested histories and must agree after every operation on contents, "
            "returned element and the three internal vectors; the extracted naive specification is run on the same histories as the property oracle.",
    "note": "Trusted: Coq kernel; extraction (ExtrOcamlBasic only); harness/runner; Vec/usize semantics modelled (checked subtraction and drain ranges = panic). "
            "T is abstract in the theorem, u8 with two values in the differential runs.",
    "design_ref": "DESIGN.md section 3, C11",
    "coq_targets": ["props/C11.vo", "Extract/StackExtract.vo"],
    "bins": ["c11"],
}


def run_cases(hbin, runner, cmds):
    outs = run_pipeline(["%s %s | %s" % (hbin, c, runner) for c in cmds])
    mism, stats = [], {}
    for rc, out in outs:
        m, s, other = parse_runner_output(out)
        if rc != 0 or "mismatches" not in s:
            mism.append({"kind": "harness", "case": "", "impl": "pipeline failed rc=%s" % rc, "expected": out[-500:]})
        mism += m
        for k, v in s.items():
            stats[k] = stats.get(k, 0) + v if isinstance(v, int) else v
    return mism, stats


def disagrees(hbin, runner, ops, kind):
    rc, out = sh("%s one '%s' | %s" % (hbin, ops, runner), timeout=60)
    m, _, _ = parse_runner_output(out)
    return any(x["kind"] == kind for x in m), m


def minimise(hbin, runner, ops, kind):
    """Greedy shrinking: delete chunks / single operations while the disagreement persists."""
    cur = ops
    step = max(1, len(cur) // 2)
    while step >= 1:
        i = 0
        changed = False
        while i < len(cur):
            cand = cur[:i] + cur[i + step:]
            if cand and disagrees(hbin, runner, cand, kind)[0]:
                cur = cand
                changed = True
            else:
                i += step
        if step == 1 and not changed:
            break
        step = step // 2 if step > 1 else (1 if changed else 0)
    return cur


def run(tier, seed, replay=None):
    res = Result("C11", tier, seed, "proof")
    thm = check_theorems("C11")
    proof_coverage(res, thm, "make -C coq props/C11.vo (coqc 8.16.1, full .vo build) + Print Assumptions", BASE_TRUST + [
        "model of pest/src/stack.rs written by hand (coq/Stack/Model.v): Vec as list, usize subtraction/drain checked",
    ])
    rc, out = coq_make(["Extract/StackExtract.vo"])
    if rc != 0:
        thm["ok"] = False
        thm["problems"].append("extraction build failed")
    brc, bout, bdir = harness_build(["c11"])
    if brc != 0:
        res.violation("harness does not build against /repo (correspondence C11-harness cannot run)",
                      {"theorem_or_correspondence": "C11 correspondence (build)", "log": bout[-3000:]}, no_failing_input=True)
        return res.finish()
    orc, oout, runner = ocaml_build("c11_runner", ["stack_model"])
    if orc != 0:
        res.violation("OCaml runner does not build", {"theorem_or_correspondence": "C11 extraction", "log": oout[-3000:]}, no_failing_input=True)
        return res.finish()
    hbin = os.path.join(bdir, "c11")

    if replay:
        ops = json.load(open(replay)).get("case", "")
        d1, m = disagrees(hbin, runner, ops, "spec")
        d2, m2 = disagrees(hbin, runner, ops, "model")
        log("replay %s: spec-disagreement=%s model-disagreement=%s" % (ops, d1, d2))
        for x in m:
            log("  %s impl=%s expected=%s" % (x["kind"], x["impl"][:300], x["expected"][:300]))
        if d1:
            res.violation("replayed history still violates the naive specification", {"case": ops})
        return res.finish()

    corpus = []
    cpath = os.path.join(ROOT, "corpus", "C11.txt")
    if os.path.exists(cpath):
        corpus = [l.strip() for l in open(cpath) if l.strip() and not l.startswith("#")]
    cmds = ["one '%s'" % c for c in corpus]
    if tier == "quick":
        cmds += ["exhaustive %d" % n for n in (1, 2, 3, 4, 5, 6)]
        cmds += ["random 2500 %d" % (seed * 1000 + i) for i in range(8)]
        exhaustive_len = 6
    else:
        cmds += ["exhaustive %d" % n for n in (1, 2, 3, 4, 5, 6, 7, 8)]
        cmds += ["random 60000 %d" % (seed * 1000 + i) for i in range(14)]
        exhaustive_len = 8
    mism, stats = run_cases(hbin, runner, cmds)

    spec_m = [m for m in mism if m["kind"] == "spec"]
    model_m = [m for m in mism if m["kind"] == "model"]
    other_m = [m for m in mism if m["kind"] not in ("spec", "model")]
    if spec_m:
        worst = min(spec_m, key=lambda m: len(m["case"]))
        small = minimise(hbin, runner, worst["case"], "spec")
        _, detail = disagrees(hbin, runner, small, "spec")
        d = detail[0] if detail else worst
        res.violation("pest::Stack differs from the naive full-copy model on history %s" % small,
                      {"theorem_or_correspondence": "C11 oracle: impl vs extracted StackSpec", "case": small,
                       "impl": d["impl"], "spec": d["expected"], "minimised_from": worst["case"],
                       "ops_legend": "0/1 push, o pop, k peek, s snapshot, c clear_snapshot, r restore"})
    elif model_m:
        worst = min(model_m, key=lambda m: len(m["case"]))
        small = minimise(hbin, runner, worst["case"], "model")
        res.violation("correspondence broken: pest::Stack internals differ from coq/Stack/Model.v on history %s, "
                      "but no history was found on which the observable contents/returns differ from the specification" % small,
                      {"theorem_or_correspondence": "C11 correspondence: impl vs extracted Stack.Model (cache, popped, lengths)",
                       "case": small, "impl": worst["impl"], "model": worst["expected"], "searched": stats},
                      no_failing_input=True)
    for m in other_m:
        res.violation("harness failure: " + m["impl"], {"theorem_or_correspondence": "C11 correspondence (run)", "log": m["expected"]}, no_failing_input=True)
    if not thm["ok"]:
        res.violation("proof obligation no longer checks: " + "; ".join(thm["problems"]),
                      {"theorem_or_correspondence": "C11_stack_transactional (coq/props/C11.v)", "log": thm["log"][-3000:]},
                      no_failing_input=not spec_m)

    if tier == "thorough" and (thm is None or thm["ok"]):
        thorough_coqchk(res, "C11")
    res.coverage.update({
        "evaluations": stats.get("evaluations", 0),
        "distinct_nontrivial": stats.get("distinct_nontrivial", 0),
        "rule": "all histories of length <= %d over {push 0, push 1, pop, peek, snapshot, clear_snapshot, restore} plus random histories "
                "of length 20-300 with three nesting-biased weight profiles; non-trivial = at some point an element that belonged to a snapshot "
                "had been popped below the snapshot line (popped vector non-empty) when a later clear_snapshot/restore ran; distinct by op string" % exhaustive_len,
        "exhaustive": True,
        "exhaustive_bound": "history length <= %d (the theorem itself is unbounded)" % exhaustive_len,
        "samples": ["01sosoc1skcrkr", "0s1sooc0r", "ss0orr"] + corpus[:3],
        "runner_cases": stats.get("cases", 0),
        "mismatches": len(mism),
    })
    res.assumptions = ["element type u8 with two values in the differential runs (the theorem is parametric in T)",
                       "internals read through the derived Debug of pest::Stack"]
    return res.finish()
