"""C02 - generated parser and interpreting VM agree on every grammar and input."""
import shlex
from common import *

META = {
    "property_id": "C02",
    "level": "proof",
    "technique": "Coq proof: the code generator (generator.rs) and the VM (vm/src/lib.rs) as two compilers from optimized rules to closure "
                 "trees over the parser-state model; forward simulation by a congruence lemma per combinator, program laws (associativity, "
                 "absorption of nested sequence(), atomic repeat() against the VM's sequence/optional/repeat nest) and the C11 stack "
                 "invariant; the generator model is translation-validated on every run against the token stream the REAL pest_generator "
                 "emits (syn reader, structural comparison), and generated parsers compiled on the spot are run against the real pest_vm",
    "text": "Theorem C02_generated_eq_vm (coq/props/C02.v, closed under the global context): for every optimized grammar in the decidable "
            "class H (in_H), either value of grammar-extras, every start rule, every input, either setting of error detail, no call limit, "
            "and all fuels that suffice, exec over gen_env and exec over vm_env return the same result kind, position, token queue, stack "
            "contents, attempt position and attempt lists, hence the same Pairs / the same error position, positives and negatives; "
            "C02_termination_equivalent: the generated parser returns exactly when the VM returns (simulation in both directions). H excludes "
            "exactly the classes in which the two back-ends really differ (WHITESPACE/COMMENT declared `!`; with grammar-extras `#t = e?` / `#t = e*`; an atomic-rule repetition whose body can fail with the "
            "stack popped, which the optimizer prevents since fix 5dcbc11): each has a Coq witness (C02_*_refuted) replayed on the real "
            "code on every run. Every run validates gen_rule/gen_skip/built-ins structurally against the parser the REAL generator emits "
            "for thousands of generated grammars (both feature sets), and compiles a batch of derive-generated parsers which it runs "
            "against the real pest_vm and against both extracted models on all inputs up to a length bound."
            " Inside the known class C02-node-tag the two real back-ends are still compared with the labels erased (rules, spans, errors must agree)."
            " When the translation validation finds a structural difference and no behavioural one, an escalated search pinpoints the differing construct (CULPRIT), builds grammars around it (1-4 pushes of different literals, predicates, choices, repetitions, trivia; the construct and its variants whose leaves pop / drop / peek - operations that change the stack before they can fail - as the whole operand of ?, *, | and predicates followed by stack readers; a differing built-in function in all those contexts) and runs the real derived parser against the real pest_vm on them, on inputs over each rule's own literals, the boundary characters of the built-ins it uses and the literals / range ends in which emitted code and model differ (and their neighbours); its hit is the replay.",
    "note": "Trusted: Coq kernel; extraction; the syn-based reader of the emitted code (strict: unknown shapes are errors) and the runner; "
            "VmCompile.v as the model of vm/src/lib.rs and Exec.v as the model of parser_state.rs (tied to the code by the batch runs here and "
            "by C01/C03); rustc for the compiled batch. The call limit is outside the statement: the back-ends count different calls, and the "
            "generated `repeat` of primitives makes no call at all (with a limit set the VM stops a non-progressing atomic repetition, the generated parser loops).",
    "design_ref": "DESIGN.md section 3, C02; section 4 rows 3, 11a, 13 (row 11b fixed in /repo: shadowed built-ins are inside H and must agree)",
    "coq_targets": ["props/C02.vo", "Extract/GenExtract.vo"],
    "bins": ["c02"],
    "feature_bins": {"extras": ["c02"]},
}

CLASSES = {
    "C02-ws-nonatomic": "WHITESPACE/COMMENT declared `!`: derive emits atomic(NonAtomic, rule(atomic(Atomic, ..))) and produces a token, the VM atomic(Atomic, rule(..)) does not (Coq: C02_ws_nonatomic_refuted)",
    "C02-node-tag": "grammar-extras: `#t = e?` / `#t = e*` are special-cased by the generator, the VM runs tag_node after the whole expression (Coq: C02_node_tag_opt_refuted, C02_node_tag_rep_refuted)",
    "C02-dirty-atomic-rep": "e* inside an atomic rule whose body fails with the stack popped: generated repeat(e) keeps the pops, the VM's sequence restores (Coq: C02_dirty_atomic_rep_refuted)",
    "C02-skip-in-push": "PUSH((!s ~ ANY)*) in an atomic rule: the skip optimisation makes the generator emit `state.stack_push(|state| let strings = ..; ..)`, which is not Rust - the derive does not compile while the VM runs the grammar",
}


def scratch(name, features):
    """(crate dir, target dir) of the behavioural batch crate for this repository."""
    suffix = "-extras" if features else ""
    if REPO == "/repo":
        return os.path.join(BUILD, name + suffix), os.path.join(ROOT, "rust", "target-" + name + suffix)
    tag = hashlib.sha1(REPO.encode()).hexdigest()[:8]
    return "/tmp/pvharness-%s-%s%s" % (tag, name, suffix), "/tmp/pvtarget-%s-%s%s" % (tag, name, suffix)


def build_batch(hbin, count, seed, features, name="c02batch", gfile=None, timeout=1500, lit=False, around=False, full=False):
    """Generate the batch program with `c02 batch`, build it against the repository (path dependencies: cargo rebuilds when the
    repository changes); returns (rc, log, exe)."""
    d, tdir = scratch(name, features)
    os.makedirs(os.path.join(d, "src"), exist_ok=True)
    rc, src = sh("%s batch %d %d %s %s %s" % (hbin, count, seed, shlex.quote(gfile) if gfile else "-", "around" if around else ("lit" if lit else "-"),
                                             "full" if full else "-"), timeout=600)
    if rc != 0 or "fn run_all" not in src:
        return 1, "c02 batch failed:\n" + src[-2000:], ""
    write_if_changed(os.path.join(d, "src", "main.rs"), src)
    hdir, _ = harness_dir()
    repo = REPO.rstrip("/")
    toml = ('[package]\nname = "%s"\nversion = "0.0.0"\nedition = "2021"\npublish = false\n\n[workspace]\n\n[features]\n'
            'extras = ["pest_meta/grammar-extras", "pest_vm/grammar-extras", "pest_derive/grammar-extras", "pvharness/extras"]\n\n[dependencies]\n'
            'pest = { path = "%s/pest" }\npest_meta = { path = "%s/meta" }\npest_vm = { path = "%s/vm" }\npest_derive = { path = "%s/derive" }\n'
            'pvharness = { path = "%s" }\n\n[profile.release]\nopt-level = 1\noverflow-checks = true\ndebug-assertions = true\npanic = "unwind"\n'
            'debug = false\ncodegen-units = 16\n' % (name, repo, repo, repo, repo, hdir))
    write_if_changed(os.path.join(d, "Cargo.toml"), toml)
    sh("cp %s %s" % (os.path.join(REPO, "Cargo.lock"), os.path.join(d, "Cargo.lock")))
    rc, out = sh("cargo build --release --offline %s 2>&1" % ("--features extras" if features else ""), cwd=d, timeout=timeout,
                 env={"CARGO_TARGET_DIR": tdir, "RUSTFLAGS": "--cfg %s -Awarnings" % HOOK_CFG})
    return rc, out, os.path.join(tdir, "release", name)


CULPRITS = []   # constructs pinpointed by the translation validation of the last run_pipes call (CULPRIT lines of the runner)


def pick_culprits(culprits, feat, limit=4):
    """Distinct pinpointed constructs for one feature set: grammars inside H first, sub-expressions before whole rules, short first;
    one entry per (kind, construct, atomic / non-atomic rule)."""
    pool = [c for c in culprits if c["x"] == ("1" if feat else "0")]
    pool.sort(key=lambda c: (c["h"] != "0", {"expr": 0, "builtin": 1, "rule": 2, "trivia": 3, "skip": 4}.get(c["kind"], 5), len(c["construct"]), len(c["grammar"])))
    def shape(c):
        """the construct with its literals and rule names abstracted (PUSH("x") and PUSH(r2) are one shape): distinct shapes first"""
        t = re.sub(r'"(?:[^"\\]|\\.)*"', "L", c["construct"])
        t = re.sub(r"'(?:[^'\\]|\\.)+'\.\.'(?:[^'\\]|\\.)+'", "L", t)
        return re.sub(r"\b(?!PUSH\b|PEEK\b|PEEK_ALL\b|POP\b|POP_ALL\b|DROP\b|L\b)[A-Za-z_][A-Za-z0-9_]*", "I", t)
    out, seen = [], set()
    for by_shape in (True, False):
        for c in pool:
            what = (shape(c) if by_shape else c["construct"]) if c["kind"] in ("expr", "builtin") else c["what"].split(" ")[-1] + c["ty"]
            key = (by_shape, c["kind"], what, c["ty"] in ("a", "c"))
            if key in seen or c in out:
                continue
            seen.add(key)
            out.append(c)
            if len(out) >= limit:
                return out
    return out


def diff_tokens(tv_diff, feat, limit=12):
    """Input tokens taken from WHAT differs between the emitted code and the model: the string literals and the range / class ends that
    occur on one side only, and the neighbours of the range ends (hex strings for C02_EXTRA_TOKENS)."""
    out = []
    def add(s):
        try:
            h = s.encode("utf-8").hex()
        except UnicodeEncodeError:
            return
        if s and h not in out:
            out.append(h)
    for m in sorted(tv_diff, key=lambda m: len(m["impl"]) + len(m["expected"])):
        if field(m["case"], "x") != ("1" if feat else "0"):
            continue
        a, b = m["impl"], m["expected"]
        lits = lambda t: set(re.findall(r"\((?:str|ins|pushlit) ([0-9a-f]+)\)", t)) | set(x for g in re.findall(r"\(until((?: [0-9a-f]+)+)\)", t) for x in g.split())
        for h in sorted(lits(a) ^ lits(b), key=len):
            try:
                add(bytes.fromhex(h).decode("utf-8"))
            except (ValueError, UnicodeDecodeError):
                pass
        nums = lambda t: set(int(x) for g in re.findall(r"\((?:range|cls)((?: \d+)+)\)", t) for x in g.split())
        for n in sorted(nums(a) ^ nums(b)):
            for cp in (n, n - 1, n + 1):
                if 0 <= cp < 0x110000 and not 0xD800 <= cp < 0xE000:
                    add(chr(cp))
        if len(out) >= limit:
            break
    return out[:limit]


def run_pipes(cmds, timeout=3000):
    outs = run_pipeline(cmds, timeout=timeout)
    mism, known, stats = [], [], {}
    del CULPRITS[:]
    for (rc, out), c in zip(outs, cmds):
        m, s, other = parse_runner_output(out)
        if rc != 0 or "mismatches" not in s or "evaluations" not in s:
            mism.append({"kind": "harness", "case": c, "impl": "pipeline `%s` failed rc=%s" % (c, rc), "expected": out[-800:]})
        mism += m
        for line in other:
            if line.startswith("CULPRIT\t"):
                p = line.split("\t")
                if len(p) >= 8:
                    CULPRITS.append({"x": p[1], "ty": p[2], "kind": p[3], "h": p[4], "what": p[5], "construct": p[6], "grammar": p[7]})
            if line.startswith("KNOWN\t"):
                p = line.split("\t")
                known.append({"class": p[1], "case": p[2] if len(p) > 2 else "", "derive": p[3] if len(p) > 3 else "", "vm": p[4] if len(p) > 4 else ""})
        for k, v in s.items():
            stats[k] = stats.get(k, 0) + v if isinstance(v, int) else v
    return mism, known, stats


def field(case, key):
    m = re.search(r"(?:^| )%s=(.*?)(?= [a-zA-Z]+=|$)" % key, case)
    return m.group(1) if m else ""


def run(tier, seed, replay=None):
    res = Result("C02", tier, seed, "proof")
    thm = check_theorems("C02")
    proof_coverage(res, thm, "make -C coq props/C02.vo (coqc 8.16.1, full .vo build) + Print Assumptions", BASE_TRUST + [
        "coq/Gen/GenCompile.v: model of generator/src/generator.rs (validated structurally against the emitted token stream on every run)",
        "coq/Peg/VmCompile.v: model of vm/src/lib.rs; coq/Comb/Exec.v: model of parser_state.rs",
        "rust/harness/src/genread.rs: syn-based reader of the dozen shapes the generator emits (strict)",
    ])
    rc, out = coq_make(["Extract/GenExtract.vo"])
    if rc != 0:
        thm["ok"] = False
        thm["problems"].append("extraction build failed")
        thm["log"] += out
    builds = {}
    for feat in ("", "extras"):
        brc, bout, bdir = harness_build(["c02"], features=feat)
        if brc != 0:
            res.violation("harness does not build against the repository%s (correspondence C02 cannot run)" % (" with grammar-extras" if feat else ""),
                          {"theorem_or_correspondence": "C02 correspondence (build)", "log": bout[-3000:]}, no_failing_input=True)
            return res.finish()
        builds[feat] = os.path.join(bdir, "c02")
    for attempt in range(4):
        orc, oout, runner = ocaml_build("c02_runner", ["gen_model"], extra=["gen_common.ml"])
        if orc == 0:
            break
        time.sleep(1 + attempt)
    if orc != 0:
        res.violation("OCaml runner does not build", {"theorem_or_correspondence": "C02 extraction", "log": oout[-3000:]}, no_failing_input=True)
        return res.finish()

    if replay:
        rj = json.load(open(replay))
        gtext, rule, inp, x = rj.get("grammar", ""), rj.get("rule", "r0"), rj.get("input", "-"), rj.get("extras", 0)
        gf = os.path.join(BUILD, "c02_replay_grammar.txt")
        with open(gf, "w") as f:
            f.write(gtext.replace("\\", "\\\\").replace("\n", "\\n").replace("\t", "\\t") + "\n")
        feat = "extras" if x else ""
        brc, bout, exe = build_batch(builds[feat], 0, 0, feat, name="c02replay", gfile=gf)
        if brc != 0:
            log("replay: the generated parser does not compile:\n" + bout[-1500:])
            res.violation("replayed grammar: the derive-generated parser does not compile", {"case": gtext, "log": bout[-1500:]})
            return res.finish()
        rc, out = sh("%s one %s %s | %s" % (exe, shlex.quote(rule), shlex.quote(inp), runner), timeout=600)
        m, s, other = parse_runner_output(out)
        spec = [y for y in m if y["kind"] == "spec"]
        log("replay: %s" % out[-1500:])
        if spec:
            res.violation("replayed case still differs between the generated parser and the VM", {"case": rj.get("case", ""), "impl": spec[0]["impl"], "vm": spec[0]["expected"]})
        return res.finish()

    # ---- translation validation of the generator model + behavioural batch ----
    if tier == "quick":
        ntv, nseeds, nbatch, maxlen, nbatch_x, maxlen_x = 1500, 2, 22, 4, 10, 3
    else:
        ntv, nseeds, nbatch, maxlen, nbatch_x, maxlen_x = 30000, 6, 150, 5, 100, 5
    cmds = []
    for feat in ("", "extras"):
        for i in range(nseeds):
            cmds.append("%s tv %d %d %s | %s" % (builds[feat], ntv, seed * 100 + i, "" if i == 0 else "nofixed", runner))
    batches, families = {}, {}
    for feat, nb in (("", nbatch), ("extras", nbatch_x)):
        brc, bout, exe = build_batch(builds[feat], nb, seed, feat, full=(tier != "quick"))
        if brc != 0:
            res.violation("the batch of derive-generated parsers does not compile%s" % (" (grammar-extras)" if feat else ""),
                          {"theorem_or_correspondence": "C02 behavioural batch (build)", "log": bout[-3000:]}, no_failing_input=True)
            continue
        rc, info = sh("grep -c '^mod g' %s" % os.path.join(scratch("c02batch", feat)[0], "src", "main.rs"))
        total = int(info.strip() or "0")
        batches[feat] = total
        rc, fam = sh("grep -m1 '^// FAMILIES' %s" % os.path.join(scratch("c02batch", feat)[0], "src", "main.rs"))
        families[feat or "default"] = {k: int(v) for k, v in re.findall(r"(\w+)=(\d+)", fam)}
        chunks = max(1, min(NPROC, total // 3))
        step = (total + chunks - 1) // chunks
        ml = maxlen if not feat else maxlen_x
        for a in range(0, total, step):
            cmds.append("%s %d %d %d | %s" % (exe, ml, a, min(total, a + step), runner))
    mism, known, stats = run_pipes(cmds)

    culprits = list(CULPRITS)
    searches = []

    def found_spec():
        return [m for m in mism if m["kind"] == "spec"]

    def absorb(s2):
        for k, v in s2.items():
            if k in ("evaluations", "distinct_nontrivial", "spec_in_H") and isinstance(v, int):
                stats[k] = stats.get(k, 0) + v

    # ---- escalated failing-input search, only when the emitted code differs structurally from the model and the batch found no
    # behavioural difference.  Stage A: grammars built AROUND the constructs the translation validation pinpointed (the construct below
    # several unequal stack entries, under both predicates, in alternatives / repetitions / sequences with trivia, behind rule calls, in
    # every modifier class), real derive parser vs real pest_vm on inputs over each rule's own literals (exhaustive + guided).
    # Stage B: the differing grammars themselves on all short strings over their own literal alphabet. ----
    tv_diff = [m for m in mism if m["kind"] == "model" and " at=" in m["case"] and field(m["case"], "g")]
    if tv_diff and culprits and not found_spec():
        for feat in ("", "extras"):
            if found_spec():
                break
            chosen = pick_culprits(culprits, feat)
            if not chosen:
                continue
            cf = os.path.join(BUILD, "c02_around_constructs%s.txt" % ("-x" if feat else ""))
            with open(cf, "w") as f:
                for c in chosen:
                    f.write("\t".join([c["ty"], c["kind"], c["what"], c["construct"], c["grammar"]]) + "\n")
            t0 = time.time()
            brc, bout, exe = build_batch(builds[feat], 0, seed, feat, name="c02around", gfile=cf, around=True)
            what = ", ".join("%s `%s` (%s, rule modifier %s)" % (c["kind"], c["construct"][:60], c["what"], c["ty"]) for c in chosen)
            if brc != 0:
                log("C02: search around %s: the grammars do not compile (%s)" % (what, bout[-300:].replace("\n", " ")))
                searches.append({"stage": "around", "extras": bool(feat), "constructs": what, "result": "grammars did not compile"})
                continue
            rc, info = sh("grep -c '^mod g' %s" % os.path.join(scratch("c02around", feat)[0], "src", "main.rs"))
            ng = int(info.strip() or "0")
            chunks = max(1, min(NPROC, ng))
            step = (ng + chunks - 1) // chunks if ng else 1
            xt = diff_tokens(tv_diff, feat)
            m2, k2, s2 = run_pipes(["C02_EXTRA_TOKENS=%s %s 4 %d %d | %s" % (",".join(xt), exe, a, min(ng, a + step), runner) for a in range(0, max(ng, 1), step)])
            log("C02: search around the pinpointed constructs%s [%s]: %d grammars, %d (rule, input) evaluations, %d direct differences, %d disagreements inside H (%.0fs)" % (
                " (grammar-extras)" if feat else "", what, ng, s2.get("evaluations", 0), s2.get("direct_differences", 0), s2.get("spec_in_H", 0), time.time() - t0))
            searches.append({"stage": "around", "extras": bool(feat), "constructs": what, "grammars": ng, "evaluations": s2.get("evaluations", 0),
                             "input_tokens_from_the_difference_hex": xt,
                             "direct_differences": s2.get("direct_differences", 0), "disagreements_in_H": s2.get("spec_in_H", 0)})
            mism += [m for m in m2 if m["kind"] == "spec"]
            known += k2
            for m in m2:
                if m["kind"] == "harness":
                    log("C02: search around: a pipeline failed (%s)" % m["impl"][:200])
            absorb(s2)
    if tv_diff and not found_spec():
        for feat in ("", "extras"):
            pool = [m for m in tv_diff if field(m["case"], "x") == ("1" if feat else "0")]
            groups = {}
            for m in sorted(pool, key=lambda m: len(field(m["case"], "g"))):
                at = field(m["case"], "at")
                key = "special" if ("WHITESPACE" in at or "COMMENT" in at or "skip" in at) else ("builtin" if "built-in" in at else "rule")
                groups.setdefault(key, [])
                if len(groups[key]) < 8 and field(m["case"], "g") not in [g for v in groups.values() for g in v]:
                    groups[key].append(field(m["case"], "g"))
            texts = [g for v in groups.values() for g in v]
            if not texts:
                continue
            gf = os.path.join(BUILD, "c02_target_grammars%s.txt" % ("-x" if feat else ""))
            with open(gf, "w") as f:
                f.write("\n".join(texts) + "\n")
            brc, bout, exe = build_batch(builds[feat], 0, seed, feat, name="c02target", gfile=gf, lit=True)
            if brc != 0:
                log("C02: targeted search: the differing grammars do not compile (%s)" % bout[-300:].replace("\n", " "))
                continue
            m2, k2, s2 = run_pipes(["C02_EXTRA_TOKENS=%s %s 4 | %s" % (",".join(diff_tokens(tv_diff, feat)), exe, runner)])
            log("C02: targeted search over %d structurally differing grammars%s: %d cases, %d disagreements inside H" % (
                len(texts), " (grammar-extras)" if feat else "", s2.get("cases", 0), s2.get("spec_in_H", 0)))
            searches.append({"stage": "differing grammars", "extras": bool(feat), "grammars": len(texts), "evaluations": s2.get("evaluations", 0),
                             "disagreements_in_H": s2.get("spec_in_H", 0)})
            mism += [m for m in m2 if m["kind"] in ("spec", "harness")]
            absorb(s2)
            if "cases" in s2:
                stats["cases"] = stats.get("cases", 0) + s2["cases"]

    kf = {f.get("class"): f for f in known_findings("C02") if f.get("status") == "known"}
    spec_m = [m for m in mism if m["kind"] == "spec"]
    model_m = [m for m in mism if m["kind"] == "model"]
    read_m = [m for m in mism if m["kind"] == "read"]
    other_m = [m for m in mism if m["kind"] not in ("spec", "model", "read")]

    seen_classes = {}
    for k in known:
        seen_classes.setdefault(k["class"], k)
    # emitted code that is not Rust: the known shape is a skip_until block directly under stack_push
    for m in read_m:
        if "(push (skip" in m["case"]:
            seen_classes.setdefault("C02-skip-in-push", {"class": "C02-skip-in-push", "case": m["case"], "derive": m["impl"][:160], "vm": "(the VM accepts and runs the grammar)"})
        else:
            res.violation("the code the generator emits could not be read back (%s) for grammar %s" % (m["impl"][:200], field(m["case"], "g")[:300] or m["case"][:300]),
                          {"theorem_or_correspondence": "C02 translation validation (reader)", "case": m["case"], "impl": m["impl"][:2000]},
                          no_failing_input=not spec_m)
    for cls, k in sorted(seen_classes.items()):
        wit = "grammar `%s` rule %s input %s: derive `%s` vs VM `%s`" % (field(k["case"], "g")[:200], field(k["case"], "r"), field(k["case"], "in"),
                                                                      k["derive"][:120], k["vm"][:120])
        n = stats.get(cls, "")
        if cls in kf:
            res.known_finding("class=%s %s (%s cases in this run)" % (cls, wit, n))
        else:
            log("KNOWN-FINDING candidate [not yet in known_findings.json]: property=C02 class=%s %s - %s (%s cases in this run)" % (cls, CLASSES.get(cls, ""), wit, n))

    if spec_m:
        def trimmed(m):
            """grammar of a case without the rules that the failing rule, WHITESPACE and COMMENT cannot reach (the other members of a
            family / the other search rules): nothing calls them.  Only for grammars printed one rule per line; otherwise unchanged."""
            g, r = field(m["case"], "g"), field(m["case"], "r")
            lines = [l for l in g.split("\\n") if l.strip()]
            rules = {}
            for l in lines:
                mm = re.match(r"^([A-Za-z_][A-Za-z0-9_]*) = [_@$!]?\{ (.*) \}$", l)
                if not mm or mm.group(1) in rules:
                    return g
                body = re.sub(r"'(?:[^'\\]|\\.)+'", " ", re.sub(r'"(?:[^"\\]|\\.)*"', " ", mm.group(2)))
                rules[mm.group(1)] = (l, set(re.findall(r"[A-Za-z_][A-Za-z0-9_]*", body)))
            if r not in rules:
                return g
            seen, todo = set(), [r, "WHITESPACE", "COMMENT"]
            while todo:
                n = todo.pop()
                if n in seen or n not in rules:
                    continue
                seen.add(n)
                todo.extend(rules[n][1])
            keep = [l for l in lines if re.match(r"^([A-Za-z_][A-Za-z0-9_]*) ", l).group(1) in seen]
            return "\\n".join(keep) + "\\n" if len(keep) < len(lines) else g
        worst = min(spec_m, key=lambda m: (len(trimmed(m)), len(field(m["case"], "in"))))
        c = worst["case"]
        gtrim = trimmed(worst)
        where = ("inside class H" if field(c, "H") == "in-H" else
                 "that is outside class H only for its `#t = e?` / `#t = e*` (known class C02-node-tag: which node gets the label), in more than the labels - "
                 "the results differ with every label erased")
        vmname = "VM built with Vm::new_with_listener (listener returns false; Vm::new answers differently)" if field(c, "vm") == "new_with_listener" else "VM"
        res.violation("the derive-generated parser and pest_vm disagree on a grammar %s: grammar `%s`, rule %s, input (hex) %s: generated `%s` vs %s `%s` "
                      "(%d disagreeing cases in this run)" % (where, gtrim[:400], field(c, "r"), field(c, "in"), worst["impl"][:200], vmname, worst["expected"][:200],
                                                            stats.get("spec_in_H", len(spec_m))),
                      {"theorem_or_correspondence": "C02 oracle: generated parser vs pest_vm (real code, compiled batch)", "case": c,
                       "grammar": gtrim.replace("\\n", "\n"), "rule": field(c, "r"), "input": field(c, "in"),
                       "extras": 1 if field(c, "x") == "1" else 0, "impl": worst["impl"], "vm": worst["expected"]})
    if model_m:
        tvm = [m for m in model_m if " at=" in m["case"]]
        beh = [m for m in model_m if " at=" not in m["case"]]
        if tvm:
            worst = min(tvm, key=lambda m: len(m["case"]))
            res.violation("translation validation failed: the parser the real generator emits differs from coq/Gen/GenCompile.v at `%s` for optimized grammar %s: "
                          "emitted `%s` vs model `%s` (%d grammars differ)%s" % (
                              field(worst["case"], "at"), field(worst["case"], "og")[:300], worst["impl"][:300], worst["expected"][:300], len(tvm),
                              "" if spec_m else "; the compiled batch found no input on which generated parser and VM disagree"),
                          {"theorem_or_correspondence": "C02 correspondence: emitted code vs extracted gen_rule/gen_skip (structural)",
                           "case": worst["case"], "impl": worst["impl"], "model": worst["expected"]}, no_failing_input=not spec_m)
        if beh:
            worst = min(beh, key=lambda m: len(m["case"]))
            res.violation("the extracted model and the real %s disagree on grammar `%s` rule %s input %s: real `%s` vs model `%s`" % (
                              "VM" if "side=vm" in worst["case"] else "generated parser", field(worst["case"], "g")[:300], field(worst["case"], "r"),
                              field(worst["case"], "in"), worst["impl"][:200], worst["expected"][:200]),
                          {"theorem_or_correspondence": "C02 correspondence: real parsers vs exec over gen_env / vm_env", "case": worst["case"],
                           "impl": worst["impl"], "model": worst["expected"]}, no_failing_input=not spec_m)
    for m in other_m:
        res.violation("harness failure: " + m["impl"][:300], {"theorem_or_correspondence": "C02 correspondence (run)", "log": m["expected"]}, no_failing_input=True)
    if tier != "quick" and thm["ok"]:
        crc, cout = coqchk("C02")
        res.coverage["coqchk"] = "ok" if crc == 0 else "FAILED"
        if crc != 0:
            thm["ok"] = False
            thm["problems"].append("coqchk rejected PV.props.C02")
            thm["log"] = cout
    if not thm["ok"]:
        res.violation("proof obligation no longer checks: " + "; ".join(thm["problems"]),
                      {"theorem_or_correspondence": "coq/props/C02.v", "log": thm["log"][-3000:]}, no_failing_input=not spec_m)

    tot = max(1, stats.get("grammars", 0))
    share = 100.0 * stats.get("in_H", 0) / tot
    log("C02: %d grammars validated structurally, %d read failures; behavioural batch %s grammars, %d (rule, input) cases, %d limited; "
        "share of generated grammars inside H: %.1f%% (%d of %d; outside: ws-nonatomic %d, node-tag %d, dirty-atomic-rep %d)" % (
            stats.get("tv", 0), stats.get("unread", 0), batches, stats.get("cases", 0), stats.get("limited", 0), share, stats.get("in_H", 0), tot,
            stats.get("ws_nonatomic", 0), stats.get("node_tag", 0), stats.get("dirty_atomic_rep", 0)))
    res.coverage.update({
        "evaluations": stats.get("evaluations", 0),
        "distinct_nontrivial": stats.get("distinct_nontrivial", 0),
        "rule": "structural: generated grammars (2-4 rules + WHITESPACE/COMMENT of every modifier, all built-ins, 5 Unicode properties, stack operations, "
                "user rules named like built-ins, node tags / PUSH_LITERAL with grammar-extras) accepted by the real pest_meta, each read back from the real "
                "derive_parser output - one evaluation = one grammar, non-trivial = some emitted function larger than 6 nodes; behavioural: witnesses + "
                "16 probe grammars + generated grammars compiled with #[derive(Parser)], every rule on all inputs over {x, y, space, 5} up to length "
                "%d (%d with grammar-extras); the per-built-in differential; the restore-on-error differential (every stack-changing operand - POP, POP_ALL, "
                "PUSH(POP), PUSH(rule that pops), DROP, .. - as the whole operand of ?, *, either side of |, below two unequal entries, followed by stack "
                "readers, normal and atomic rules; random members of the family in the generated stream); the shadowing differential (for each of the 11 "
                "non-keyword built-ins and 5 Unicode properties one grammar that defines the name differently - narrower with a token / disjoint and silent, "
                "alternating with the seed in the quick tier, both in the thorough one - and has one rule per OTHER built-in, on all strings up to length 2 "
                "over the boundaries of every ASCII class, CR, LF, blank, +, e-acute and the grammar's literals); the per-built-in differential runs each "
                "hard-coded built-in bare, in a sequence, under ?, *, +, doubled in an atomic rule, in a choice and under a negative predicate, on all strings "
                "up to length 3 over {CR, LF, x, 0, a, A, e-acute, blank} and on the characters at and around every boundary of its definition (a-1, a, b, b+1 "
                "per range, e.g. U+007F / U+0080 for ASCII; every UTF-8 width for ANY) alone, doubled, in pairs and next to x - generated grammars that mention "
                "a built-in get the boundary inputs too; the explicit-trivia differential (WHITESPACE x COMMENT modifiers: a Latin square over n, _, @, $ chosen "
                "by the seed plus (!, !) in the quick tier, all 25 pairs in the thorough one; each grammar has, for every caller modifier and both trivia rules, "
                "a rule that NAMES the trivia rule between two literals, callers through helper rules of other modifiers, under ?, *, +, | and both predicates; "
                "a third of the generated grammars with trivia rules also call them by name); with grammar-extras the node-tag differential (tags on *, +, ?, "
                "counted repetitions, choice, sequence, both predicates, PUSH, literals, inside repetitions, in non-atomic rules with silent and with "
                "token-producing WHITESPACE / COMMENT, entered from atomic rules; inputs also with a trivia token after every letter; grammars with "
                "`#t = e?` / `#t = e*` - known class C02-node-tag - are compared with every label erased: what remains different is a violation) "
"; every case of every family runs BOTH public constructors of the VM (Vm::new and Vm::new_with_listener with a listener that returns false): they must agree "
                "with each other and with the generated parser; the restore-on-error differential also has every stack-changing operand as the whole body "
                "of +, {1,}, {1,3}, {2} in atomic, compound-atomic and normal rules below two or three unequal entries, followed by readers of the whole "
                "stack (both feature sets); the Unicode-property differential (one rule per property name of pest::unicode - binary properties, general "
                "categories, scripts - on the code points at and around every boundary of the property's own table over all planes and on every 0x3a7-th "
                "code point, alone and every fourth also after `x`; only differences go to the runner); the case-insensitive differential (`^\"..\"` literals with cased "
                "letters outside ASCII - Latin-1, Cyrillic, Greek, dotted I, sharp s, a titlecase digraph, the Kelvin sign - bare, repeated, under predicates, "
                "pushed, in normal / atomic / compound-atomic rules, on every literal as written, lower-cased, upper-cased, ASCII-folded either way, "
                "case-swapped, alone, followed by x and in pairs) "
                "- one evaluation = one (grammar, rule, input), non-trivial = a parse producing tokens or failing past position 0" % (maxlen, maxlen_x),
        "exhaustive": True,
        "exhaustive_bound": "inputs: all strings over a 4-letter alphabet up to length %d per grammar and rule; grammars: sampled (the theorem is unbounded)" % maxlen,
        "samples": ["r0 = @{ \"x\"* ~ \"y\" } WHITESPACE = _{ \" \" }", "r0 = { \"x\" ~ \"y\" } WHITESPACE = { \" \" | \"5 \" } COMMENT = { \"5\" }",
                    "r0 = @{ r1 } r1 = !{ \"x\" ~ \"y\" } WHITESPACE = _{ \" \" }"],
        "runner_cases": stats.get("cases", 0) + stats.get("tv", 0),
        "mismatches": len(mism),
        "share_in_H_percent": round(share, 1),
        "classes_outside_H": {k: stats.get(k, 0) for k in ("ws_nonatomic", "node_tag", "dirty_atomic_rep")},
        "known_classes_seen": sorted(seen_classes.keys()),
        "batch_grammars": batches,
        "fixed_families_in_batch": families,
        "beyond_node_tag_differences": stats.get("beyond_tags", 0),
        "escalated_search": searches if searches else "not run (no structural difference between emitted code and model)",
    })
    res.assumptions = ["no call limit (limit = None) in the theorem; the batch runs under a limit of 3000 calls and discards cases that touch it",
                       "the batch alphabet is {x, y, space, 5} (plus class-boundary characters where built-ins are used); the theorem is for arbitrary byte strings"]
    return res.finish()
