"""C18 - the bundled JSON grammar accepts exactly RFC 8259 JSON (proof over a grammar regenerated from json.pest)."""
import importlib.util

from common import *

META = {
    "property_id": "C18",
    "level": "proof",
    "technique": "Coq proof about a model REGENERATED from the source on every run: tools/pest2v.py (an independent reader of pest's concrete "
                 "syntax) translates grammars/src/grammars/json.pest into the Gallina term json_grammar and is cross-checked against the AST the "
                 "real pest_meta parser reads from the same file; the theorem relates Layer S (Peg/Spec.v, the documented PEG semantics, fuelled) on "
                 "that term to RFC 8259 written as inductive relations over UTF-8 bytes, through an executable recogniser proved sound and complete "
                 "for the relations (RFC side) and proved to be what every rule of the grammar computes (PEG side: scanner/parser combinator lemmas, "
                 "induction on input length for the recursive rules inner and value); tied to the shipped derive-generated JsonParser (and pest_vm) by "
                 "differential runs of the extracted Spec and of the extracted recogniser",
    "text": "Theorem C18_json_is_rfc8259 (coq/props/C18.v, closed under the global context), the FULL statement: for every byte string w that is "
            "valid UTF-8 (every Rust &str), every table of Unicode property rules and default features, (1) there are fuel and a result with "
            "spec_parse json_grammar w json = SMatch iff w is a JSON text per RFC 8259 (ws value ws; numbers [minus] int [frac] [exp]; strings of "
            "unescaped scalar values %x20-21/%x23-5B/%x5D-10FFFF in UTF-8, the eight one-letter escapes and \\uXXXX; arrays, objects, true/false/null); "
            "(2) on acceptance the whole input is consumed, the stack is empty and the token forest is tree_top of THE document of w (json_doc is "
            "functional): json(0,|w|)[value[...] EOI], one node per value, object, pair, array, string, number, bool/null, each with its exact byte "
            "span; (3) for a non-JSON text no fuel yields a match and some fuel yields SFail (the parse terminates with a failure). "
            "C18_recogniser_correct: rfc_parse w = Some d <-> json_doc w d. C18_json_text_is_utf8: every JSON text is valid UTF-8, so the UTF-8 "
            "hypothesis restricts neither side. C18_rfc_abnf_equivalent: the literal transcription of the RFC's ABNF (whitespace attached to the six "
            "structural characters) generates exactly json_text. No deviation between json.pest and RFC 8259 was found (DEL and all non-ASCII scalar values are "
            "accepted unescaped, exactly U+0000..U+001F, quotation mark and reverse solidus are not). The statement is about Layer S on the "
            "regenerated grammar; its transfer to the shipped parser is the differential tie below (and properties C01/C02): the REAL "
            "pest_grammars::json::JsonParser and pest_vm on json.pest are run on all strings of up to 5 (quick: 4 and a quarter of 5; thorough: 6) "
            "symbols of a 16-symbol JSON alphabet, on random documents of every shape (depth <= 20) and on near-misses, and must agree on acceptance "
            "and on the whole token forest with extracted spec_parse json_grammar (kind model) and with the extracted RFC recogniser + tree_top (kind spec)."
            " The differential runs are repeated on the shipped parser compiled with the workspace feature grammar-extras (pest_derive/grammar-extras named explicitly: a proc-macro does not share features with the run-time crates).",
    "note": "Trusted: Coq kernel incl. vm_compute (rule look-ups in the regenerated term, examples); tools/pest2v.py (cross-checked against pest_meta on "
            "every run); Peg/Spec.v as the reading of the documented semantics (its agreement with pest_vm is C01's correspondence); extraction "
            "(ExtrOcamlBasic only); harness/runner. Nesting depth and the call limit are resource limits outside the model (generated depth <= 20). "
            "Inputs are byte strings that are valid UTF-8; RFC 8259's informative remarks (duplicate names, number range, BOM) are not part of the grammar.",
    "design_ref": "DESIGN.md section 3, C18",
    "coq_targets": ["props/C18.vo", "Extract/JsonExtract.vo"],
    "bins": [],
    "feature_bins": {"grammars": ["c18"]},
}

TRUST = BASE_TRUST + [
    "tools/pest2v.py (translator json.pest -> Gallina; its s-expression must equal the one printed by the real pest_meta parser, checked on every run)",
    "coq/Peg/Spec.v: Layer S, the documented PEG semantics (shared layer; tied to pest_vm by C01's correspondence)",
    "coq/Json/Rfc8259.v: RFC 8259 transcribed as inductive relations (element = ws value ws form; proved equivalent to the literal ABNF of coq/Json/RfcAbnf.v)",
]

JSON_PEST = "grammars/src/grammars/json.pest"


def translator():
    spec = importlib.util.spec_from_file_location("pest2v", os.path.join(ROOT, "tools", "pest2v.py"))
    m = importlib.util.module_from_spec(spec)
    spec.loader.exec_module(m)
    return m


def regenerate():
    """-> (sexp or None, changed, error text or None)"""
    T = translator()
    try:
        rules, sx, changed = T.generate_json(os.path.join(COQ, "gen"), REPO)
        return sx, changed, None
    except (T.TranslatorError, OSError, UnicodeDecodeError) as e:
        return None, False, str(e)


def pre_setup():
    regenerate()


def setup():
    for feat in ("grammars", "grammars,extras"):
        rc, out, _ = harness_build(["c18"], features=feat)
        if rc != 0:
            print(out[-2000:])


# coq/gen/ is git-ignored output: make sure the generated file exists before `./check --setup` asks make for props/C18.vo
if not os.path.exists(os.path.join(COQ, "gen", "JsonGrammar.v")):
    try:
        regenerate()
    except Exception:      # reported properly by run()
        pass


def unhex(h):
    return b"" if h == "-" else bytes.fromhex(h)


def show(h):
    return unhex(h.split(" ")[0]).decode("utf-8", "replace")


def run_cases(hbin, runner, cmds, timeout=3000):
    mism, stats = [], {}
    env = "VERIF_REPO=%s " % REPO
    for i in range(0, len(cmds), NPROC):
        outs = run_pipeline(["%s%s %s | %s" % (env, hbin, c, runner) for c in cmds[i:i + NPROC]], timeout=timeout)
        for (rc, out), c in zip(outs, cmds[i:i + NPROC]):
            m, s, other = parse_runner_output(out)
            if rc != 0 or "mismatches" not in s or "evaluations" not in s:
                mism.append({"kind": "harness", "case": c, "impl": "pipeline failed rc=%s" % rc, "expected": out[-500:]})
            mism += m
            for k, v in s.items():
                stats[k] = stats.get(k, 0) + v if isinstance(v, int) else v
    return mism, stats


def one_case(hbin, runner, hexin):
    rc, out = sh("VERIF_REPO=%s %s one %s | %s" % (REPO, hbin, hexin, runner), timeout=60)
    m, s, _ = parse_runner_output(out)
    return m


def minimise(hbin, runner, hexin, kind):
    """Delete characters while the real parser and the expected answer still disagree."""
    try:
        cur = list(unhex(hexin).decode("utf-8"))
    except UnicodeDecodeError:
        return hexin
    improved = True
    while improved and len(cur) > 1:
        improved = False
        for i in range(len(cur)):
            cand = cur[:i] + cur[i + 1:]
            h = "".join(cand).encode("utf-8").hex() or "-"
            if any(x["kind"] == kind and " vm" not in x["case"] for x in one_case(hbin, runner, h)):
                cur, improved = cand, True
                break
    return "".join(cur).encode("utf-8").hex() or "-"


def failed_lemma(log):
    m = re.search(r'File "\./(Json/\w+\.v|props/C18\.v|gen/JsonGrammar\.v)", line (\d+)', log)
    if not m:
        return None
    try:
        lines = open(os.path.join(COQ, m.group(1))).read().split("\n")
        for i in range(int(m.group(2)) - 1, max(0, int(m.group(2)) - 40), -1):
            mm = re.match(r"\s*(Lemma|Theorem|Example|Corollary)\s+(\w+)", lines[i])
            if mm:
                return "%s (%s)" % (mm.group(2), m.group(1))
    except OSError:
        pass
    return "%s line %s" % (m.group(1), m.group(2))


def run(tier, seed, replay=None):
    res = Result("C18", tier, seed, "proof")

    # ---- 1. regenerate the model from the source ----
    sx, changed, terr = regenerate()
    log("translator: %s" % ("cannot read %s: %s" % (JSON_PEST, terr) if terr else "coq/gen/JsonGrammar.v %s" % ("regenerated" if changed else "unchanged")))

    # ---- 2. harness; the AST the real pest_meta reads must equal the translator's ----
    brc, bout, bdir = harness_build(["c18"], features="grammars")
    if brc != 0:
        res.violation("harness does not build against the repository (pest_grammars / json.pest do not compile; correspondence C18 cannot run)",
                      {"theorem_or_correspondence": "C18 correspondence (build)", "log": bout[-3000:], "translator": terr}, no_failing_input=True)
        return res.finish()
    hbin = os.path.join(bdir, "c18")
    # the same shipped parser with the workspace built with grammar-extras (cargo feature unification reaches pest_derive's generator)
    xrc, xout, xdir = harness_build(["c18"], features="grammars,extras")
    hbin_x = os.path.join(xdir, "c18") if xrc == 0 else None
    if xrc != 0:
        res.violation("harness does not build against the repository with grammar-extras (pest_grammars / json.pest do not compile under that feature)",
                      {"theorem_or_correspondence": "C18 correspondence (build, grammar-extras)", "log": xout[-3000:]}, no_failing_input=True)
    grc, gout = sh("%s gram %s" % (hbin, os.path.join(REPO, JSON_PEST)), timeout=60)
    real_sx = gout.strip().split("\n")[-1] if grc == 0 else None
    translator_ok = terr is None and real_sx is not None and real_sx == sx
    if not translator_ok:
        res.violation("translator cross-check failed: the grammar read by tools/pest2v.py differs from the AST pest_meta reads from json.pest "
                      "(or one of them rejects the file): %s" % (terr or ("pest_meta: " + (gout[-300:] if real_sx is None else "ASTs differ"))),
                      {"theorem_or_correspondence": "C18 translator cross-check (pest2v.py vs pest_meta::parser)", "translator": terr,
                       "pest_meta_sexp": real_sx, "pest2v_sexp": sx}, no_failing_input=True)

    # ---- 3. proofs over the regenerated grammar; the extraction does not depend on them ----
    if terr is None:
        thm = check_theorems("C18")
    else:
        thm = {"ok": False, "log": "", "theorems": [], "problems": ["translator: " + terr], "deps": coq_deps("props/C18.v")}
    proof_coverage(res, thm, "python3 tools/pest2v.py (json.pest -> coq/gen/JsonGrammar.v) && make -C coq props/C18.vo (coqc 8.16.1, full .vo build) + Print Assumptions", TRUST)
    if thm["ok"] and tier == "thorough":
        crc, cout = coqchk("C18", timeout=1500)
        res.coverage["coqchk"] = "ok" if crc == 0 else "rc=%d %s" % (crc, cout[-300:])
        if crc not in (0, 124):
            thm["ok"] = False
            thm["problems"].append("coqchk failed: " + cout[-500:])
    erc, eout = coq_make(["Extract/JsonExtract.vo"])
    orc, oout, runner = ocaml_build("c18_runner", ["json_model"]) if erc == 0 else (1, eout, "")
    if orc != 0:
        res.violation("the extracted model / OCaml runner does not build", {"theorem_or_correspondence": "C18 extraction", "log": (oout or eout)[-3000:]},
                      no_failing_input=True)
        return res.finish()

    if replay:
        r = json.load(open(replay))
        case = r.get("case", "")
        if r.get("features") == "grammar-extras" and hbin_x:
            hbin = hbin_x
        m = one_case(hbin, runner, case.split(" ")[0]) if case else []
        for x in m:
            log("  %s case=%s (%r) impl=%s expected=%s" % (x["kind"], x["case"], show(x["case"]), x["impl"][:300], x["expected"][:300]))
        spec = [x for x in m if x["kind"] == "spec"]
        log("replay %s (%r): spec-disagreement=%s model-disagreement=%s" % (case, show(case) if case else "", bool(spec), any(x["kind"] == "model" for x in m)))
        if spec:
            res.violation("replayed input: the shipped JsonParser still disagrees with RFC 8259 on %r" % show(case),
                          {"case": case, "input_text": show(case), "impl": spec[0]["impl"], "spec": spec[0]["expected"]})
        return res.finish()

    # ---- 4. the real parser on generated inputs ----
    corpus = []
    cpath = os.path.join(ROOT, "corpus", "C18.txt")
    if os.path.exists(cpath):
        corpus = [l.strip() for l in open(cpath) if l.strip() and not l.startswith("#")]
    cmds = (["file %s" % cpath] if corpus else []) + ["deep 20"]
    shards = max(4, min(NPROC, 16))
    if tier == "quick":
        cmds += ["exhaustive %d 0 1" % n for n in (0, 1, 2, 3)] + ["exhaustive 4 %d 4" % k for k in range(4)]
        cmds += ["exhaustive 5 %d 16" % ((seed + 4 * k) % 16) for k in range(4)]
        cmds += ["random 2500 %d 5" % (seed * 1000 + i) for i in range(6)] + ["random 300 %d 20" % (seed * 1000 + 77)]
        cmds += ["near 4000 %d" % (seed * 1000 + 100 + i) for i in range(8)]
        bound = "all strings of <= 4 symbols and 4 of the 16 residue classes of the strings of 5 symbols"
    else:
        cmds += ["exhaustive %d 0 1" % n for n in (0, 1, 2, 3)] + ["exhaustive 4 %d 4" % k for k in range(4)]
        cmds += ["exhaustive 5 %d 16" % k for k in range(16)]
        cmds += ["exhaustive 6 %d 256" % k for k in range(256)]
        cmds += ["random 30000 %d 6" % (seed * 1000 + i) for i in range(shards)] + ["random 3000 %d 20" % (seed * 1000 + 77)]
        cmds += ["near 40000 %d" % (seed * 1000 + 100 + i) for i in range(shards)]
        bound = "all strings of <= 6 symbols"
    mism, stats = run_cases(hbin, runner, cmds)
    xstats = {}
    if hbin_x:
        # grammar-extras build: the exhaustive short strings, documents and near-misses again
        xcmds = [c for c in cmds if c.startswith("exhaustive") or c.startswith("deep") or c.startswith("file")]
        xcmds += [c for c in cmds if c.startswith("near")][:4 if tier == "quick" else None] + [c for c in cmds if c.startswith("random")][:2 if tier == "quick" else None]
        xm, xstats = run_cases(hbin_x, runner, xcmds)
        seen_cases = set((m["kind"], m["case"]) for m in mism)
        for m in xm:
            if (m["kind"], m["case"]) not in seen_cases:      # what only the grammar-extras build shows
                m["features"] = "grammar-extras"
                mism.append(m)
    spec_m = [m for m in mism if m["kind"] == "spec"]
    model_m = [m for m in mism if m["kind"] == "model"]
    other_m = [m for m in mism if m["kind"] not in ("spec", "model")]

    # proofs broken but no input found yet: search the neighbourhood harder before saying so
    if not thm["ok"] and terr is None and not spec_m and not other_m and tier == "quick":
        log("  proofs do not check and no failing input yet: extended search (all strings of 5 symbols, more documents and near-misses)")
        m2, s2 = run_cases(hbin, runner, ["exhaustive 5 %d 16" % k for k in range(16)] + ["random 20000 %d 6" % (seed * 1000 + 500 + i) for i in range(4)] +
                           ["near 30000 %d" % (seed * 1000 + 600 + i) for i in range(8)])
        spec_m += [m for m in m2 if m["kind"] == "spec"]
        model_m += [m for m in m2 if m["kind"] == "model"]
        for k, v in s2.items():
            stats[k] = stats.get(k, 0) + v if isinstance(v, int) else v

    # ---- 5. verdicts ----
    problems = "; ".join(thm["problems"])
    lemma = failed_lemma(thm["log"]) if not thm["ok"] else None
    if spec_m:
        worst = min(spec_m, key=lambda m: (len(m["case"]), m["case"]))
        feat = worst.get("features")
        if feat and hbin_x:
            hbin = hbin_x
        small = minimise(hbin, runner, worst["case"].split(" ")[0], "spec")
        d = ([x for x in one_case(hbin, runner, small) if x["kind"] == "spec"] or [worst])[0]
        accepted = d["impl"].startswith("Ok")
        res.violation("the shipped JsonParser%s %s %r, which %s a JSON text per RFC 8259 (%d disagreeing inputs in this run)%s" % (
            " (workspace built with grammar-extras)" if feat else "", "accepts" if accepted else "rejects", show(small), "is NOT" if accepted and not d["expected"].startswith("Ok") else
            ("IS" if not accepted else "is, but with a different token tree for"), len(spec_m),
            "; the proof breaks at %s" % lemma if lemma else ""),
            {"theorem_or_correspondence": "C18 oracle: pest_grammars::json::JsonParser vs extracted rfc_parse/tree_top (RFC 8259)" +
             ("; C18_json_is_rfc8259 no longer checks" if not thm["ok"] else ""),
             "case": small, "input_text": show(small), "impl": d["impl"], "spec": d["expected"], "minimised_from": worst["case"],
             "features": feat or "default",
             "other_failing_inputs": [show(m["case"]) for m in sorted(spec_m, key=lambda m: len(m["case"]))[:12]], "proof_problems": problems})
    elif model_m:
        worst = min(model_m, key=lambda m: (len(m["case"]), m["case"]))
        small = worst["case"] if " vm" in worst["case"] else minimise(hbin, runner, worst["case"], "model")
        res.violation("correspondence broken: the shipped JsonParser and Layer S on the grammar regenerated from json.pest (or pest_vm) disagree on %r, "
                      "but no input was found on which the shipped parser deviates from RFC 8259" % show(small),
                      {"theorem_or_correspondence": "C18 correspondence: JsonParser vs extracted spec_parse json_grammar / pest_vm", "case": small,
                       "input_text": show(small), "impl": worst["impl"], "model": worst["expected"], "searched": stats}, no_failing_input=True)
    for m in other_m[:3]:
        res.violation("harness failure: " + m["impl"], {"theorem_or_correspondence": "C18 correspondence (run)", "case": m["case"], "log": m["expected"]},
                      no_failing_input=True)
    if not thm["ok"] and not spec_m:
        res.violation("proof obligation no longer checks (%s): %s; no input was found on which the shipped JsonParser deviates from RFC 8259" % (
            lemma or "see log", problems), {"theorem_or_correspondence": "C18_json_is_rfc8259 (coq/props/C18.v)", "log": thm["log"][-3000:],
                                            "translator": terr, "searched": stats}, no_failing_input=True)

    res.coverage.update({
        "grammar_extras_build_evaluations": xstats.get("evaluations", 0),
        "evaluations": stats.get("evaluations", 0),
        "distinct_nontrivial": stats.get("distinct_nontrivial", 0),
        "rule": "one evaluation = one input string given to the real pest_grammars::json::JsonParser::parse(Rule::json, _) and to pest_vm on "
                "parse_and_optimize(json.pest): acceptance and the whole token forest (rule names, byte spans) compared with extracted spec_parse on the "
                "regenerated json_grammar and with extracted rfc_parse + tree_top. Inputs: %s over the alphabet { } [ ] , : \" \\ 0 1 - . e true null space; "
                "random documents of every shape (all scalar kinds, every number form, plain/multi-byte/escaped/\\u/surrogate-pair strings, whitespace "
                "variations, depth <= 20, nesting chains to depth 20); near-misses: one or two mutations of a valid document out of 16 kinds (leading "
                "zero, bare sign/dot/exponent, trailing comma, control character, bad escape, damaged \\u, truncation, deletion, duplication, replacement, "
                "insertion, non-JSON whitespace/comments, damaged literal, damaged colon/comma, trailing garbage). distinct_nontrivial = distinct inputs "
                "that the real parser accepts or rejects only after matching at least one byte (error position > 0)" % bound,
        "exhaustive": True,
        "exhaustive_bound": bound + " of the 16-symbol alphabet (the theorem itself is unbounded)",
        "accepted_by_real_parser": stats.get("accepted", 0),
        "accepted_by_rfc": stats.get("rfc_accepted", 0),
        "vm_differs_from_derive": stats.get("vm_differs", 0),
        "panics": stats.get("panics", 0),
        "runner_cases": stats.get("cases", 0),
        "model_out_of_fuel": stats.get("model_out_of_fuel", 0),
        "mismatches": len(mism),
        "translator_crosscheck": "identical s-expression" if translator_ok else "FAILED",
        "samples": ["[1, -0.5e+3, \"\\u00e9\\n\", true, null]", "{\"a\" : {}}", "01", "[1,]", "\"\\t\" (raw TAB)", "\"\\x\""] + [show(c) for c in corpus[:3]],
    })
    res.assumptions = ["inputs are Rust strings (valid UTF-8); the theorem carries the hypothesis valid_utf8 w and C18_json_text_is_utf8 shows it costs nothing",
                       "the theorem is about Layer S (documented semantics) on the regenerated grammar; the shipped derive-generated parser is tied to it by "
                       "the differential runs here and by C01/C02",
                       "nesting depth / call limit are resource limits outside the model (generated depth <= 20)"]
    return res.finish()
