"""C05 - optimizer passes preserve the meaning of every grammar."""
import shlex
from common import *

META = {
    "property_id": "C05",
    "level": "proof",
    "technique": "Coq proofs of semantic preservation of syntactic transformations: the seven passes of meta/src/optimizer are Gallina functions "
                 "on the AST (coq/Opt), the documented semantics is Peg.Spec.eval; a big-step characterisation of eval (adequate in both "
                 "directions, via fuel monotonicity) gives congruence, the algebraic laws behind each rewrite and the transfer between a "
                 "grammar and its rule-by-rule image; restore_on_err is stated over exec . vm_expr. The models are tied to the code by "
                 "structural differential runs (real pass vs extracted pass on generated ASTs, both feature sets) and the property itself is "
                 "checked on the implementation by running the real VM before and after every real pass on all short inputs",
    "text": "coq/props/C05.v, all closed under the global context. Meaning = Peg.Spec.eval: two grammars have the same meaning when every expression "
            "(in particular every rule name) has the same definite result (position, stack, token forest, or failure) for every atomicity, emit flag, "
            "boundary position, stack and valid input, at whatever fuel suffices (`same_meaning`; eval is fuel-monotone and deterministic). PROVED for "
            "every valid grammar (valid UTF-8 literals, no rule named like a built-in, unique names) and both feature sets: C05_passes - rotate, skip, "
            "unroll, concatenate, factor each preserve the meaning when applied to every rule as verif_apply_pass does (skip with the rule map it is "
            "given; rule references inlined through populate_choices, empty and non-string alternatives, the byte-level facts for ^\"a\" ~ ^\"b\" and "
            "skip_until included), list preserves it wherever it does not fire; C05_pipeline_outside_lister_class - the composition as `optimize` chains "
            "the passes rule by rule (skipper map = the original rules) preserves the meaning outside the decidable class `lister_class`; "
            "C05_restorer_fixed - for the code with fixes/C05-1 and C05-2, in restore_on_err(to_optimized G) no alternative (child of ?, of *, side of |) "
            "can fail and leave a modified stack, for every fuel, state, memchr configuration, run by exec . vm_expr on the restored rules (soundness of "
            "child_modifies_state as a visited-set reachability analysis + the restore contracts of sequence/look-ahead/RestoreOnErr); "
            "C05_fixed_outside_lister_class combines them. REFUTED (Coq, by evaluation, and replayed on the implementation in every run): "
            "C05_lister_refuted / C05_statement_refuted (the lister rewrite; known finding, pinned by optimizer::tests::lister), "
            "C05_restorer_pop_all_refuted and C05_restorer_map_refuted (the restorer as shipped; repaired by the two fix: commits). Every run ties the "
            "Gallina passes to the code structurally (real pass vs extracted pass on generated ASTs, each pass alone and in pipeline order, conversion "
            "with and without restore_on_err, whole optimize, default features and grammar-extras) and checks the property on the implementation: real "
            "pest_vm before vs after every real pass on all short inputs, Spec before vs after, VM vs Spec on the unroll/restore streams. NOT theorems: "
            "that `optimize` returns normally on every valid grammar (proved for rotate/factor/unroll with reader-accepted counts only), and the link "
            "exec . vm_expr = Spec (that is C01); the restorer clause is therefore stated operationally."
            " After a broken proof obligation or structural correspondence with no input found, an escalated search (real VM before vs after each real pass, no model of a pass involved) runs on the differing grammars, entry rule of the type it has, with inputs derived from their literals (case variants, prefixes, concatenations), on the same grammars with WHITESPACE / COMMENT switched on, on mutated variants of them (literal / operand changes, a sub-expression replaced by a built-in, rule types, entry rule wrapped) and on more generated rule sets."
            " The known class is decided by the Coq predicates alone, never by what the real list pass does: a before/after difference of the list pass (or of the pipeline) counts as the known finding only when the rewrite of coq/Opt/List.v fires on the rules the pass was given (lister_applies / lister_class, extracted, evaluated by the runner on every such difference) and, when the real pass did anything else than that rewrite, only on inputs on which the known rewrite alone changes the result as well."
            " A normal or silent entry rule (no atomicity of its own) is run from a non-atomic and from a compound-atomic caller, a silent one inside a normal caller whose pair carries its span; the Spec before/after comparison includes the end of the match.",
    "note": "Trusted: Coq kernel; extraction (ExtrOcamlBasic only); harness/runner/driver; HashMap<String,_> modelled as last-binding-wins "
            "association list; Rust String = valid UTF-8 byte list; stack overflow of populate_choices on cyclic first alternatives modelled as "
            "abnormal termination (None).",
    "design_ref": "DESIGN.md section 3, C05; section 4 rows 3 and 4",
    "coq_targets": ["props/C05.vo", "Extract/OptExtract.vo"],
    "bins": ["c05"],
}

PASS_NAMES = ["rotate", "skip", "unroll", "concatenate", "factor", "list", "to_optimized", "to_optimized+restore_on_err", "optimize"]
C05_1 = ("child_modifies_state (meta/src/optimizer/restorer.rs) does not treat POP_ALL as state-modifying: a failing POP_ALL has already "
         "emptied the stack when the next alternative runs", "C05_restorer_pop_all_refuted", "fixes/C05-1-restorer-pop-all.patch")
C05_2 = ("OptimizedExpr::map_bottom_up / iter_top_down (meta/src/optimizer/mod.rs) do not descend into RepOnce / NodeTag (grammar-extras): "
         "alternatives inside `(..)+` and `#t = (..)` are never wrapped in RestoreOnErr and stack operations under them are not seen",
         "C05_restorer_map_refuted", "fixes/C05-2-optimized-map-rep-once-node-tag.patch")
WITNESS_CLASS = {"popall": C05_1, "popall-opt": C05_1, "reponce": C05_2, "nodetag": C05_2, "itertag": C05_2}
# classes under which known_findings.json records the two repairs (status "fixed"): a fixed entry suppresses nothing
FIXED_CLASS = {"fixes/C05-1-restorer-pop-all.patch": "C05-restorer-pop-all", "fixes/C05-2-optimized-map-rep-once-node-tag.patch": "C05-optimized-traversals"}
LISTER_DESC = ("class=C05-lister the lister rewrite `(x ~ y)* ~ x` => `x ~ (y ~ x)*` changes the rule: `(\"a\" ~ \"b\")* ~ \"a\"` accepts the prefix `aba` of "
               "`abab` after optimization, the unoptimized rule does not match (Coq: C05_lister_refuted; pinned by optimizer::tests::lister)")


def probe(hbin):
    rc, out = sh("%s probe" % hbin, timeout=60)
    fl = {"extras": 0, "fix_pop": 1, "fix_map": 1, "fix_iter": 1}
    for line in out.split("\n"):
        if line.startswith("#PROBE"):
            for kv in line.split("\t")[1:]:
                k, v = kv.split("=")
                fl[k] = int(v)
    return fl


def probe_unroll(hbin):
    """Does `e{n,}` with n = u32::MAX make the unroller panic at once (the original `min + 2` arithmetic) or try to build 2^32 clones (inclusive
    ranges of the repaired unroller)?  Asked under a small memory/time bound."""
    rc, out = sh("bash -c 'ulimit -v 1500000; timeout 20 %s one \"(r0 n (repmin 4294967295 (str 78)))\"' 2>&1" % hbin, timeout=60)
    for line in out.split("\n"):
        p = line.split("\t")
        if len(p) >= 5 and p[0] == "P" and p[2] == "2":
            return 1 if p[4] == "PANIC" else 0
    return 0


def model_flags(fl):
    f = []
    if fl.get("ovf"):
        f.append("--ovf")
    if fl["fix_pop"]:
        f.append("--fixpop")
    if fl["extras"] and fl["fix_map"] and fl["fix_iter"]:
        f.append("--fixmap")
    return " ".join(f)


def run_cases(jobs):
    """jobs: list of (label, shell pipeline).  Returns mismatches (with label), stats, CONTRACT/KNOWN/WITNESS lines."""
    outs = run_pipeline([j[1] for j in jobs])
    mism, stats, lines = [], {}, []
    for (rc, out), (label, cmd) in zip(outs, jobs):
        m, s, other = parse_runner_output(out)
        if rc != 0 or "mismatches" not in s or "evaluations" not in s:
            mism.append({"kind": "harness", "case": cmd, "impl": "pipeline `%s` failed rc=%s" % (cmd, rc), "expected": out[-800:], "label": label})
        for x in m:
            x["label"] = label
        mism += m
        lines += [(label, l) for l in other]
        for k, v in s.items():
            if isinstance(v, int):
                stats[k] = stats.get(k, 0) + v
                stats[label + ":" + k] = stats.get(label + ":" + k, 0) + v
    return mism, stats, lines


def grammar_of_case(case):
    i = case.find(" g=")
    return case[i + 3:] if i >= 0 else ""


def escalated_search(builds, grammars, seed, tier, maxlen, runner, flags):
    """Only after a proof obligation or the structural correspondence broke and the ordinary streams found no failing input: the real VM
    before vs after every real pass (no model involved) on (1) the rule sets on which the real pass and coq/Opt differ, with inputs derived
    from their own literals (each literal, its case variants, its proper prefixes, concatenations), with the entry rule of the type it has
    (a normal / silent entry rule is run from a non-atomic and from an atomic caller), (2) the same rule sets with WHITESPACE / COMMENT
    switched on, (3) variants of those rule sets (harness `mutate`), (4) more rule sets of the `sem` generator.  The CONTRACT lines pass
    through the runner only for the membership test of the known lister class (extracted Coq predicate); no model of a pass is involved.
    Returns (CONTRACT lines with label, coverage record)."""
    import tempfile
    t0 = time.time()
    cap, nvar, nrand, tmo = (64, 40, 80, 120) if tier == "quick" else (400, 150, 600, 1200)
    shards = max(1, NPROC // max(1, len(builds)))
    tmp = tempfile.mkdtemp(prefix="c05-search-")
    jobs = []
    cov = {"ran": True, "rule_sets_given": 0, "shards": 0}
    for label, hbin in sorted(builds.items()):
        gs = sorted(set(grammars.get(label, [])), key=lambda g: (len(g), g))[:cap]
        cov["rule_sets_given"] += len(gs)
        for i in range(shards):
            part = gs[i::shards]
            if not part and i > 0 and gs:
                continue
            f = os.path.join(tmp, "%s-%d.txt" % (label, i))
            with open(f, "w") as fh:
                fh.write("\n".join(part) + "\n")
            jobs.append((label, "ulimit -v 6000000; timeout %d %s search %s %d %d %d %d | %s %s" % (tmo, hbin, f, seed * 1000 + 500 + i, nvar, nrand, maxlen, runner, flags[label])))
    cov["shards"] = len(jobs)
    outs = run_pipeline([j[1] for j in jobs], timeout=tmo + 30)
    lines, failed = [], 0
    for (rc, out), (label, cmd) in zip(outs, jobs):
        if rc != 0:
            failed += 1          # a shard that ran out of time or memory still contributes what it printed
        m, st, other = parse_runner_output(out)
        for k in ("given", "skipped", "not_tried", "trivia_variants", "variants", "random", "hits_given", "hits_trivia", "hits_variant", "hits_random", "inputs", "vm_runs", "lister_reclassified"):
            if isinstance(st.get(k), int):
                cov[k] = cov.get(k, 0) + st[k]
        lines += [(label, l) for l in other if l.startswith("CONTRACT\t")]
    sh("rm -rf %s" % tmp)
    cov["shards_incomplete"] = failed
    cov["wall_s"] = round(time.time() - t0, 1)
    return lines, cov


def run(tier, seed, replay=None):
    res = Result("C05", tier, seed, "proof")
    thm = check_theorems("C05")
    proof_coverage(res, thm, "make -C coq props/C05.vo (coqc 8.16.1, full .vo build) + Print Assumptions", BASE_TRUST + [
        "models of meta/src/optimizer/{rotator,skipper,unroller,concatenator,factorizer,lister,restorer,mod}.rs and of the map_top_down / "
        "map_bottom_up / iter_top_down traversals of ast.rs and optimizer/mod.rs written by hand (coq/Opt/*.v), panics and unbounded recursion = None",
        "Layer S (coq/Peg/Spec.v) as the documented semantics; Layer B/C (coq/Peg/VmCompile.v, coq/Comb/Exec.v) as the operational reading of optimized rules",
    ])
    rc, out = coq_make(["Extract/OptExtract.vo"])
    if rc != 0:
        thm["ok"] = False
        thm["problems"].append("extraction build failed")
    builds = {}
    for feat in ("", "extras"):
        brc, bout, bdir = harness_build(["c05"], features=feat)
        if brc != 0:
            res.violation("harness does not build against the repository (features `%s`; correspondence C05 cannot run)" % (feat or "default"),
                          {"theorem_or_correspondence": "C05 correspondence (build)", "log": bout[-3000:]}, no_failing_input=True)
            return res.finish()
        builds[feat or "default"] = os.path.join(bdir, "c05")
    for attempt in range(4):
        orc, oout, runner = ocaml_build("c05_runner", ["opt_model"])
        if orc == 0:
            break
        time.sleep(1 + attempt)
    if orc != 0:
        res.violation("OCaml runner does not build", {"theorem_or_correspondence": "C05 extraction", "log": oout[-3000:]}, no_failing_input=True)
        return res.finish()
    flags, state = {}, {}
    for label, hbin in builds.items():
        state[label] = probe(hbin)
        state[label]["ovf"] = probe_unroll(hbin)
        flags[label] = model_flags(state[label])
    log("C05: implementation state (probe): POP_ALL in child_modifies_state %s; OptimizedExpr traversals into RepOnce/NodeTag %s ; unroller ranges %s -> model flags default `%s`, extras `%s`" % (
        "present (fixes/C05-1)" if state["default"]["fix_pop"] else "missing (as shipped)",
        "present (fixes/C05-2)" if state["extras"]["fix_map"] and state["extras"]["fix_iter"] else
        ("partial" if state["extras"]["fix_map"] or state["extras"]["fix_iter"] else "missing (as shipped)"),
        "`1..num + 1` (overflow panics)" if state["default"]["ovf"] else "inclusive (no overflow)", flags["default"], flags["extras"]))

    if replay:
        rj = json.load(open(replay))
        label = rj.get("features", "default")
        hbin = builds.get(label, builds["default"])
        mode = rj.get("mode", "one")
        if mode == "witness":
            cmd = "%s witness | %s %s" % (hbin, runner, flags[label])
        else:
            extra = ("5 " + shlex.quote(rj["input_hex"])) if mode == "semone" and rj.get("input_hex") else ("5" if mode == "semone" else "")
            cmd = "%s %s %s %s | %s %s --spec 4" % (hbin, mode, shlex.quote(rj.get("grammar", "")), extra, runner, flags[label])
        rc, out = sh(cmd, timeout=300)
        m, s, other = parse_runner_output(out)
        bad = [x for x in m if x["kind"] == "spec" and (mode != "witness" or ("witness=%s " % rj.get("witness", "")) in x["case"])]
        contracts = [l for l in other if l.startswith("CONTRACT\tother")]
        modelm = [x for x in m if x["kind"] == "model"]
        log("replay (%s, %s): %d specification mismatches, %d real-VM before/after differences, %d model mismatches" % (label, mode, len(bad), len(contracts), len(modelm)))
        for x in (bad + modelm)[:6]:
            log("  %s %s\n    impl=%s\n    expected=%s" % (x["kind"], x["case"][:300], x["impl"][:300], x["expected"][:300]))
        for l in contracts[:4]:
            log("  " + l[:500])
        if bad or contracts:
            res.violation("replayed case still violates the property", {"mode": mode, "grammar": rj.get("grammar", ""), "witness": rj.get("witness", ""), "features": label})
        return res.finish()

    n_struct, n_sem, maxlen, speclen, shards = (700, 160, 5, 3, 3) if tier == "quick" else (6000, 1500, 6, 4, 6)
    jobs = []
    # a mutated unroller may try to build 2^32 clones for the u32::MAX counts of the generator: bound memory and time of every harness process
    guard = "ulimit -v 6000000; timeout %d " % (150 if tier == "quick" else 1500)
    for label, hbin in builds.items():
        hbin = guard + hbin
        jobs.append((label, "%s witness | %s %s" % (hbin, runner, flags[label])))
        for i in range(shards):
            jobs.append((label, "%s struct %d %d %s | %s %s --spec %d" % (hbin, n_struct, seed * 100 + i, "huge" if state[label]["ovf"] else "-", runner, flags[label], speclen)))
            jobs.append((label, "%s sem %d %d %d | %s %s" % (hbin, n_sem, seed * 100 + 50 + i, maxlen, runner, flags[label])))
    mism, stats, lines = [], {}, []
    for i in range(0, len(jobs), NPROC):
        m, s, l = run_cases(jobs[i:i + NPROC])
        mism += m
        lines += l
        for k, v in s.items():
            stats[k] = stats.get(k, 0) + v

    found_input = False
    # 1. named witnesses of the two repairable defects (spec mismatches of class <witness name>)
    spec_m = [m for m in mism if m["kind"] == "spec"]
    seen_fix = set()
    for m in spec_m:
        cls = m["impl"].split("|", 1)[0]
        if cls in WITNESS_CLASS and (WITNESS_CLASS[cls][2], m["label"]) not in seen_fix:
            desc, coqthm, patch = WITNESS_CLASS[cls]
            seen_fix.add((patch, m["label"]))
            found_input = True
            entry = {f.get("class"): f for f in known_findings("C05")}.get(FIXED_CLASS[patch])
            if entry and entry.get("status") == "fixed":
                desc += " [recorded as fixed in known_findings.json (class %s) but the witness reproduces on this tree]" % FIXED_CLASS[patch]
            res.violation("restore_on_err leaves a modified stack for the alternative tried next (features %s): witness `%s`: %s; real parse_and_optimize + Vm: `%s`, "
                          "documented semantics: `%s`. %s" % (m["label"], cls, m["case"], m["impl"].split("|", 1)[1], m["expected"], desc),
                          {"theorem_or_correspondence": "C05 oracle: real VM on optimize(G) vs Peg.Spec on G; Coq: " + coqthm, "mode": "witness", "witness": cls,
                           "features": m["label"], "case": m["case"], "grammar": grammar_of_case(m["case"]), "impl": m["impl"], "spec": m["expected"], "suggested_fix": patch})
    # 2. any other disagreement with the documented semantics / any real-VM difference outside the lister class
    rest = [m for m in spec_m if m["impl"].split("|", 1)[0] not in WITNESS_CLASS]
    by_cls = {}
    for m in rest:
        by_cls.setdefault((m["impl"].split("|", 1)[0], m["label"]), []).append(m)
    for (cls, label), ms in sorted(by_cls.items()):
        worst = min(ms, key=lambda m: len(m["case"]))
        found_input = True
        what = ("the real pass `%s` changes the documented meaning of a rule" % PASS_NAMES[int(cls[4:])]) if cls.startswith("pass") else \
               ("the real VM on the optimized rules (stream `%s`) disagrees with the documented semantics of the grammar" % cls)
        hint = ""
        if cls == "restore" and not (state[label]["fix_pop"] and (label == "default" or (state[label]["fix_map"] and state[label]["fix_iter"]))):
            hint = " (the tree lacks fixes/C05-1 / C05-2: a failing alternative leaves the stack modified)"
        res.violation("%s%s (features %s, %d cases): %s: impl `%s` vs spec `%s`" % (what, hint, label, len(ms), worst["case"][:600], worst["impl"].split("|", 1)[-1][:200], worst["expected"][:200]),
                      {"theorem_or_correspondence": "C05 oracle: impl vs Peg.Spec", "mode": "semone" if not cls.startswith("pass") else "one", "features": label,
                       "grammar": grammar_of_case(worst["case"]), "case": worst["case"], "impl": worst["impl"], "spec": worst["expected"], "cases_in_class": len(ms)})
    model_m = [m for m in mism if m["kind"] == "model"]
    base_contract = any(l.startswith("CONTRACT\tother") for label, l in lines)
    search_cov = {"ran": False}
    escalated = set()
    if (model_m or not thm["ok"]) and not found_input and not base_contract:
        per_label = {}
        for m in model_m:
            if m["label"] in builds and grammar_of_case(m["case"]):
                per_label.setdefault(m["label"], []).append(grammar_of_case(m["case"]))
        log("C05: %s and the ordinary streams found no failing input: escalated search (real VM before/after every real pass on %d rule sets on which "
            "pass and model differ, inputs derived from their literals; variants of them; more generated rule sets)" % (
                "the structural correspondence broke" if model_m else "a proof obligation broke", sum(len(set(v)) for v in per_label.values())))
        elines, search_cov = escalated_search(builds, per_label, seed, tier, maxlen, runner, flags)
        search_cov["reason"] = "structural correspondence broke" if model_m else "proof obligation broke"
        escalated = set(l for label, l in elines)
        lines += elines
        log("C05: escalated search: %s" % json.dumps(search_cov, sort_keys=True))
    contracts = {}
    for label, l in lines:
        if l.startswith("CONTRACT\tother"):
            p = l.split("\t")
            contracts.setdefault((p[2], label), []).append(p + [l in escalated])
    for (pas, label), ps in sorted(contracts.items()):
        worst = min(ps, key=lambda p: len(p[4]) + len(p[5]))
        found_input = True
        res.violation("the real VM accepts/tokenises differently before and after the real pass `%s` (features %s, %d inputs%s): grammar %s input(hex) %s: before `%s` after `%s`" % (
            PASS_NAMES[int(pas)], label, len(ps), ", found by the escalated search" if worst[-1] else "", worst[4][:600], worst[5], worst[6][:200], worst[7][:200]),
            {"theorem_or_correspondence": "C05 property oracle: pest_vm on the rules before vs after the pass", "mode": "semone", "features": label,
             "grammar": worst[4], "input_hex": worst[5], "before": worst[6], "after": worst[7], "pass": PASS_NAMES[int(pas)],
             "found_by": "escalated search" if worst[-1] else "sem stream"})
    # 3. structural correspondence
    by_pass = {}
    for m in model_m:
        pas = re.search(r"pass=(\d+)", m["case"])
        by_pass.setdefault((pas.group(1) if pas else "?", m["label"]), []).append(m)
    for (pas, label), ms in sorted(by_pass.items()):
        worst = min(ms, key=lambda m: len(m["case"]))
        res.violation("correspondence broken: the real pass `%s` differs from coq/Opt (model flags `%s`, features %s, %d cases) on %s: impl `%s` vs model `%s`%s" % (
            PASS_NAMES[int(pas)] if pas.isdigit() else pas, flags[label], label, len(ms), worst["case"][:500], worst["impl"][:300], worst["expected"][:300],
            "" if found_input else "; no input was found on which the meaning of a grammar changes"),
            {"theorem_or_correspondence": "C05 correspondence: impl vs extracted PV.Opt", "mode": "one", "features": label, "grammar": grammar_of_case(worst["case"]),
             "case": worst["case"], "impl": worst["impl"], "model": worst["expected"], "searched": {k: v for k, v in stats.items() if ":" not in k}},
            no_failing_input=not found_input)
    for m in mism:
        if m["kind"] not in ("spec", "model"):
            res.violation("harness failure: " + m["impl"], {"theorem_or_correspondence": "C05 correspondence (run)", "log": m["expected"]}, no_failing_input=True)
    # 4. the lister class
    lister_w = [l for label, l in lines if l.startswith("WITNESS\tlister\tDISAGREES")]
    known = {f.get("class"): f for f in known_findings("C05")}
    lister_cases = stats.get("known_lister", 0) + stats.get("vm_diff_lister", 0)
    if lister_w or lister_cases:
        entry = known.get("C05-lister")
        if entry and entry.get("status") == "fixed":
            res.violation("finding C05-lister is recorded as fixed but its witness still reproduces", {"theorem_or_correspondence": "C05 known class lister", "mode": "witness", "witness": "lister"})
        else:
            res.known_finding("%s; witness reproduced through parse_and_optimize + Vm: %s; %d further cases in the class%s" % (
                LISTER_DESC, "yes" if lister_w else "no", lister_cases, "" if entry else " [not yet in known_findings.json]"))
    if tier != "quick" and thm["ok"]:
        crc, cout = coqchk("C05")
        res.coverage["coqchk"] = "ok" if crc == 0 else "FAILED"
        if crc != 0:
            thm["ok"] = False
            thm["problems"].append("coqchk rejected PV.props.C05")
            thm["log"] = cout
    if not thm["ok"]:
        res.violation("proof obligation no longer checks: " + "; ".join(thm["problems"]),
                      {"theorem_or_correspondence": "coq/props/C05.v", "log": thm["log"][-3000:]}, no_failing_input=not found_input)

    res.coverage.update({
        "evaluations": stats.get("evaluations", 0),
        "distinct_nontrivial": stats.get("distinct_nontrivial", 0),
        "rule": "generated rule sets (3-5 rules; shapes per pass: left/right/mixed nested sequences and choices; `(!(alternatives) ~ ANY)*` with string, rule-name "
                "(inlinable or not), empty-string and non-string alternatives in atomic and other rules plus near misses; the four bounded repetitions with counts "
                "0-3 and u32::MAX, e+; adjacent Str/Insens in every association; the three factor shapes with equal/unequal heads; the lister shape alone and followed "
                "by a tail (optional separator, separator | other, EOI, any expression; nested left as written or right as rotated); entry rules of all five "
                "types (silent included), WHITESPACE in a third and COMMENT in a ninth of the rule sets; stack "
                "operations under choices/optionals/repetitions/tags/rule references incl. cyclic references; plus gram::gen_grammar). Structural: every pass on the "
                "raw AST and in pipeline order, to_optimized with/without restore_on_err, optimize; default features and grammar-extras. Property oracle: real VM "
                "before/after each pass on all inputs of length <= %d over the grammar's alphabet, all inputs of length <= 3 over that alphabet plus the case-swapped "
                "letters, and up to 300 concatenations (<= 3 tokens, <= 6 bytes) of tokens derived from the grammar's own literals (each literal, its case-swapped / "
                "upper / lower forms, its proper prefixes and characters, one member of each named character class); Spec before/after on inputs <= %d (plus the "
                "upper-case letters, one shorter, when the grammar has case-insensitive literals); VM vs Spec on the unroll/restore "
                "streams. Concatenate shapes mix case-sensitive and case-insensitive literals; factor shapes include alternatives whose heads (or tails) "
                "match prefixes of each other before a shared tail (after a shared head). Built-ins (NEWLINE, the ASCII_* classes, ANY / SOI / EOI, the stack "
                "built-ins) stand, in about a third of the rule sets of the rewriting kinds (half of the skip shapes), in the positions a pass inspects or resolves: in skip-until stop sets directly, inside a choice and behind a helper rule of any "
                "type (`r2 = NEWLINE`, `r2 = \"x\" | NEWLINE`), as operands of rotated sequences / choices, between concatenated literals, as shared heads of "
                "factored choices, as element / separator of the lister shape, under bounded repetitions; a rule set that names built-ins is also run on all "
                "short strings (budget 450 per rule set) over two letters and \\n, \\r, \\r\\n resp. the first / last member of each named ASCII class and the "
                "characters just outside it. `escalated_search` says what the search after a broken "
                "proof / correspondence covered when it ran. One evaluation = one (pass, AST) comparison or one (rule set, input) parse. non-trivial = distinct (pass, AST) on which the rewrite fired" % (maxlen, speclen),
        "exhaustive": False,
        "samples": ["x=0 pass=4 g=(r0 a (cho (seq (str 78) (str 79)) (str 78)))", "x=1 pass=7 g=(r0 n (opt (tag t (id r1))));(r1 n (id POP))"],
        "runner_cases": stats.get("cases", 0),
        "mismatches": len(mism),
        "implementation_state": state,
        "per_pass_fired": {PASS_NAMES[i]: stats.get("fired%d" % i, 0) for i in range(9)},
        "per_pass_cases": {PASS_NAMES[i]: stats.get("pass%d_cases" % i, 0) for i in range(9)},
        "vm_runs": stats.get("vm_runs", 0), "spec_cases": stats.get("spec_cases", 0), "spec_undecided": stats.get("spec_undecided", 0),
        "lister_class_cases": lister_cases, "panics_agree": stats.get("panics_agree", 0),
        "escalated_search": search_cov,
        "lister_class_decided_by": "extracted lister_applies / lister_class on every before/after difference of pass list / optimize; harness lines taken out of the class by the runner: %d" % stats.get("lister_reclassified", 0),
        "entry_contexts": "non-silent r0: from the top level; normal and silent r0 also from `${ r0 }`; silent r0 inside `{ r0 }` (span of the match)",
    })
    res.assumptions = ["inputs of the semantic runs: all strings up to the length bound over {x, y, space|z, e-acute}, short strings with their upper-case forms, and "
                       "a bounded sample of concatenations of the grammar's literals, their case variants and prefixes, for rule sets naming built-ins the line "
                       "break forms and the boundary characters of the named ASCII classes; the theorems are for arbitrary inputs",
                       "real-VM runs use a call limit of 3000 with an explicit probe so that a parse that ran into the limit is never taken for a result",
                       "rule sets of the semantic runs only call higher-numbered rules (no recursion); the structural runs include cyclic references"]
    return res.finish()
