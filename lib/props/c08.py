"""C08 - failure reports point at the furthest failure with sound expectations."""
from common import *

WITNESS_GRAMMAR = 'r0 = { r1 ~ "x" | s }\ns = _{ r1 ~ "y" }\nr1 = { "q" }\n'
WITNESS_INPUT = "z"
KNOWN_CLASS = {
    "class": "C08-same-rule-twice",
    "what": "a rule that fails at the reported position after the SAME inner rule was tried there more than once (and nothing else) is reported itself, "
            "not the inner rule: `track` counts attempts (curr_attempts - prev_attempts == 1), not distinct rules. Grammar r0 = { r1 ~ \"x\" | s }, "
            "s = _{ r1 ~ \"y\" }, r1 = { \"q\" } on `z`: pest reports `expected r0`; read literally (\"unless exactly one such rule was tried\": only r1 was tried "
            "inside r0 at 0) the report would be `expected r1`. Coq: C08_report_refuted; outside the decidable KnownClass the literal reading is proved "
            "(C08_outside_known_class), and the counted reading of the comment in track() is proved for every run (C08_failure_reports).",
}

META = {
    "property_id": "C08",
    "level": "proof",
    "technique": "Coq proof by ghost instrumentation: exec_log = the validated model of parser_state.rs (Comb.Exec) that also returns the forest of rule "
                 "attempts (erasure lemma), invariant over all executions relating (attempt_pos, pos_attempts, neg_attempts) to the forest, proved by induction "
                 "on fuel from any start state; tied to the code by differential runs (real ParserState under an attempt-recording interpreter, real pest_vm::Vm "
                 "against its transcription to closure trees) with the extracted specification evaluated on the real run's own forest and error",
    "text": "Theorems in coq/props/C08.v (closed under the global context), for every configuration, closure environment, program, input, call limit, detail "
            "switch and fuel, whenever state() returns a ParsingError: (a) the position is max_reportable_pos of the attempt forest (furthest reportable attempt "
            "that failed outside / matched under negation; 0 if none); (b) every positive has a reportable attempt that failed exactly there under a non-negative "
            "sign, every negative one that matched exactly there under the negative sign; (c) both lists are strictly increasing (sort_dedup_sorted, sort_dedup_in); "
            "(d) the two lists equal report_counted (a failing rule replaces what was reported inside it at the same position unless exactly one attempt was "
            "reported there - the reading of the comment in track()) on every run, and equal report_of_log (the literal reading by sets of rules) outside the "
            "decidable class KnownClass; the full literal statement is refuted (C08_report_refuted) by a witness that is replayed on the real code every run. "
            "exec_log is proved to erase to exec (exec_log_erasure). Generated parsers are covered through C02 (generator = VM), not here.",
    "note": "Trusted: Coq kernel; extraction (ExtrOcamlBasic only); harness/runner; the hand-written model Comb.Exec (validated separately by the Layer-C "
            "correspondence) and the transcription of vm/src/lib.rs to closure trees inside the harness (checked against Vm::parse on every VM case). "
            "Error message text (Display of ParsingError) is not part of the property.",
    "design_ref": "DESIGN.md section 3, C08",
    "coq_targets": ["props/C08.vo", "Extract/AttemptsExtract.vo"],
    "bins": ["c08"],
}


def hexs(s):
    return s.encode().hex() or "-"


def run_cases(hbin, runner, cmds, timeout=600, runner_args=""):
    mism, stats = [], {}
    for i in range(0, len(cmds), NPROC):
        chunk = cmds[i:i + NPROC]
        outs = run_pipeline(["%s %s | %s %s" % (hbin, c, runner, runner_args) for c in chunk], timeout=timeout)
        for (rc, out), c in zip(outs, chunk):
            m, s, other = parse_runner_output(out)
            hangs = [l.split("\t", 1)[1] for l in other if l.startswith("HANG\t")]
            for h in hangs:
                mism.append({"kind": "hang", "case": h, "impl": "the real code did not return within 10 s", "expected": c})
            if not hangs and (rc != 0 or "mismatches" not in s or "evaluations" not in s):
                mism.append({"kind": "harness", "case": c, "impl": "pipeline failed rc=%s" % rc, "expected": out[-500:]})
            mism += m
            for k, v in s.items():
                stats[k] = stats.get(k, 0) + v if isinstance(v, int) else v
    return mism, stats


def one_case(hbin, runner, case, showknown=False):
    rc, out = sh("%s one '%s' | %s %s" % (hbin, case.replace("'", "'\\''"), runner, "showknown" if showknown else ""), timeout=60)
    m, s, _ = parse_runner_output(out)
    return m, s


# ---- shrinking: the case is "lim=.. det=.. in=<hex> env=<p;p..> prog=<p>"; shrink the input and replace sub-trees by leaves ----
def split_case(case):
    ki, ke, kp = case.index(" in="), case.index(" env="), case.index(" prog=")
    return case[:ki], case[ki + 4:ke], case[ke + 5:kp], case[kp + 6:]


def join_case(head, inp, env, prog):
    return "%s in=%s env=%s prog=%s" % (head, inp, env, prog)


def subterms(p):
    """spans (start, end) of the parenthesised sub-terms of an s-expression, outermost first"""
    out, st = [], []
    for i, ch in enumerate(p):
        if ch == "(":
            st.append(i)
        elif ch == ")":
            out.append((st.pop(), i + 1))
    return sorted(out, key=lambda ab: ab[0] - ab[1])


def minimise(hbin, runner, case, kind, budget=400):
    def bad(c):
        try:
            m, _ = one_case(hbin, runner, c)
        except Exception:
            return False
        return any(x["kind"] == kind for x in m)
    cur = case
    steps = 0
    improved = True
    while improved and steps < budget:
        improved = False
        head, inp, env, prog = split_case(cur)
        cands = []
        if inp != "-":
            b = bytes.fromhex(inp)
            for i in range(len(b)):
                try:
                    t = (b[:i] + b[i + 1:]).decode()
                    cands.append(join_case(head, t.encode().hex() or "-", env, prog))
                except UnicodeDecodeError:
                    pass
        for which, text in (("prog", prog), ("env", env)):
            for (a, z) in subterms(text):
                sub = text[a:z]
                inner = [text[x:y] for (x, y) in subterms(sub[1:-1])]
                for rep in ["ok", "err"] + inner[:6]:
                    if rep == sub:
                        continue
                    t = text[:a] + rep + text[z:]
                    cands.append(join_case(head, inp, env, t) if which == "prog" else join_case(head, inp, t, prog))
        cands = [c for c in cands if len(c) < len(cur)]
        cands.sort(key=len)
        for c in cands:
            steps += 1
            if steps > budget:
                break
            if bad(c):
                cur = c
                improved = True
                break
    return cur


def run(tier, seed, replay=None):
    res = Result("C08", tier, seed, "proof")
    thm = check_theorems("C08")
    proof_coverage(res, thm, "make -C coq props/C08.vo (coqc 8.16.1, full .vo build) + Print Assumptions", BASE_TRUST + [
        "model of pest/src/parser_state.rs written by hand (coq/Comb/Exec.v; rule(), track(), attempts_at(), state() line by line), instrumented in "
        "coq/Comb/Attempts.v (exec_log; proved to erase to exec)",
        "transcription of vm/src/lib.rs to closure trees in rust/harness/src/bin/c08.rs (compared with Vm::parse on every VM case)",
    ])
    rc, out = coq_make(["Extract/AttemptsExtract.vo"])
    if rc != 0:
        thm["ok"] = False
        thm["problems"].append("extraction build failed")
    if tier == "thorough" and thm["ok"]:
        crc, cout = coqchk("C08", timeout=1200)
        res.coverage["coqchk"] = "ok" if crc == 0 else "rc=%d %s" % (crc, cout[-300:])
        if crc not in (0, 124):
            thm["ok"] = False
            thm["problems"].append("coqchk failed: " + cout[-500:])
    brc, bout, bdir = harness_build(["c08"])
    if brc != 0:
        res.violation("harness does not build against the repository (correspondence C08 cannot run)",
                      {"theorem_or_correspondence": "C08 correspondence (build)", "log": bout[-3000:]}, no_failing_input=True)
        return res.finish()
    orc, oout, runner = ocaml_build("c08_runner", ["attempts_model"])
    if orc != 0:
        res.violation("OCaml runner does not build", {"theorem_or_correspondence": "C08 extraction", "log": oout[-3000:]}, no_failing_input=True)
        return res.finish()
    hbin = os.path.join(bdir, "c08")

    if replay:
        case = json.load(open(replay)).get("case", "")
        m, s = one_case(hbin, runner, case, showknown=True)
        for x in m:
            log("  %s case=%s impl=%s expected=%s" % (x["kind"], x["case"][:600], x["impl"][:400], x["expected"][:400]))
        spec = [x for x in m if x["kind"] == "spec"]
        log("replay: spec-disagreement=%s model-disagreement=%s known-class=%s" %
            (bool(spec), any(x["kind"] == "model" for x in m), any(x["kind"] == "known" for x in m)))
        if spec:
            res.violation("replayed case still violates the failure-report specification", {"case": case, "impl": spec[0]["impl"], "spec": spec[0]["expected"]})
        return res.finish()

    corpus = []
    cpath = os.path.join(ROOT, "corpus", "C08.txt")
    if os.path.exists(cpath):
        corpus = [l.rstrip("\n") for l in open(cpath) if l.strip() and not l.startswith("#")]
    cmds = ["one '%s'" % c.replace("'", "'\\''") for c in corpus]
    shards = max(4, min(NPROC, 16))
    if tier == "quick":
        cmds += ["small %d %d" % (k, shards) for k in range(shards)]
        cmds += ["glike 30000 %d" % (seed * 1000 + i) for i in range(shards)]
        cmds += ["vm 4000 %d" % (seed * 1000 + 100 + i) for i in range(shards)]
        cmds += ["random 2500 %d 6" % (seed * 1000 + 200 + i) for i in range(shards)]
    else:
        cmds += ["small %d %d" % (k, shards) for k in range(shards)]
        cmds += ["glike 250000 %d" % (seed * 1000 + i) for i in range(2 * shards)]
        cmds += ["vm 40000 %d" % (seed * 1000 + 100 + i) for i in range(2 * shards)]
        cmds += ["random 60000 %d 7" % (seed * 1000 + 200 + i) for i in range(shards)]
    mism, stats = run_cases(hbin, runner, cmds, timeout=150 if tier == "quick" else 1500)

    spec_m = [m for m in mism if m["kind"] == "spec"]
    model_m = [m for m in mism if m["kind"] in ("model", "vm")]
    other_m = [m for m in mism if m["kind"] not in ("spec", "model", "vm", "known", "hang")]
    hang_m = [m for m in mism if m["kind"] == "hang"]
    if hang_m:
        worst = min(hang_m, key=lambda m: (len(m["case"]), m["case"]))
        res.violation("the real code does not return (10 s watchdog) on %s" % worst["case"][:1500],
                      {"theorem_or_correspondence": "C08 correspondence (run): pest::state / Vm::parse must return", "case": worst["case"],
                       "impl": worst["impl"], "other_hanging_cases": [m["case"] for m in hang_m[1:6]]}, no_failing_input=not spec_m)
    if spec_m:
        worst = min(spec_m, key=lambda m: (len(m["case"]), m["case"]))
        small = minimise(hbin, runner, worst["case"], "spec")
        d, _ = one_case(hbin, runner, small)
        d = ([x for x in d if x["kind"] == "spec"] or [worst])[0]
        res.violation("pest's failure report disagrees with the specification on %s" % small[:1500],
                      {"theorem_or_correspondence": "C08 oracle: real report vs extracted Attempts specification evaluated on the real attempt forest",
                       "case": small, "impl": d["impl"], "spec": d["expected"], "minimised_from": worst["case"],
                       "other_failing_cases": [m["case"] for m in spec_m[:8]],
                       "legend": "case: lim/det/in(hex)/env/prog as in rust/harness/src/prog.rs; forest node = rule@pos M|F n|p|g a|- [children]; "
                                 "PE:[positives]:[negatives]@position"})
    elif model_m:
        worst = min(model_m, key=lambda m: (len(m["case"]), m["case"]))
        small = minimise(hbin, runner, worst["case"], worst["kind"]) if worst["kind"] == "model" else worst["case"]
        d, _ = one_case(hbin, runner, small)
        d = ([x for x in d if x["kind"] == worst["kind"]] or [worst])[0]
        what = ("pest differs from the instrumented model coq/Comb/Attempts.v" if worst["kind"] == "model"
                else "pest_vm::Vm::parse differs from its transcription to closure trees in the harness")
        res.violation("correspondence broken: %s on %s, but no case was found on which the real report violates the specification" % (what, small[:1500]),
                      {"theorem_or_correspondence": "C08 correspondence (%s)" % worst["kind"], "case": small, "impl": d["impl"], "model": d["expected"],
                       "searched": stats}, no_failing_input=True)
    for m in other_m:
        res.violation("harness failure: " + m["impl"], {"theorem_or_correspondence": "C08 correspondence (run)", "case": m["case"], "log": m["expected"]},
                      no_failing_input=True)
    if not thm["ok"]:
        res.violation("proof obligation no longer checks: " + "; ".join(thm["problems"]),
                      {"theorem_or_correspondence": "coq/props/C08.v", "log": thm["log"][-3000:]}, no_failing_input=not spec_m)

    # the refuted literal reading: replay the witness on the real VM; reported as a known finding while it reproduces
    rc, out = sh("%s vmone %s %s | %s showknown" % (hbin, hexs(WITNESS_GRAMMAR), hexs(WITNESS_INPUT), runner), timeout=60)
    wm, ws, _ = parse_runner_output(out)
    reproduced = any(x["kind"] == "known" for x in wm) and not any(x["kind"] in ("spec", "vm", "model") for x in wm) and ws.get("vm_cases", 0) == 1
    registered = {f.get("class"): f for f in known_findings("C08")}
    entry = registered.get(KNOWN_CLASS["class"])
    if reproduced and not (entry and entry.get("status") == "fixed"):
        res.known_finding("class=%s witness=grammar %s input %s: %s%s" % (KNOWN_CLASS["class"], json.dumps(WITNESS_GRAMMAR), json.dumps(WITNESS_INPUT),
                                                                        KNOWN_CLASS["what"], "" if entry else " [not yet in known_findings.json]"))
    elif reproduced:
        res.violation("finding %s is recorded as fixed but its witness still reproduces" % KNOWN_CLASS["class"],
                      {"theorem_or_correspondence": "C08 known class", "case": WITNESS_GRAMMAR + " on " + WITNESS_INPUT})

    res.coverage.update({
        "evaluations": stats.get("evaluations", 0),
        "distinct_nontrivial": stats.get("distinct_nontrivial", 0),
        "rule": "closure trees run on the real ParserState through pest::state under an interpreter that records every rule attempt: (small) every combination of "
                "5 top shapes x {x, x|y, x~y} over 48 wrapped single-rule atoms (plain, !, &, ?, atomic, nested rule; bodies a, b, fail, empty) x 5 inputs - exhaustive; "
                "(glike) random grammar-like trees: 2-6 rules in all five modifier shapes over sequences, choices, repeats, optionals, predicates, atomic sections, "
                "inline nested rules, shared rule ids, references to later rules, x inputs over {a,b} up to length 3; (vm) random small grammars in pest syntax through "
                "pest_meta::parse_and_optimize and the real pest_vm::Vm::parse, compared with their transcription to closure trees, x inputs over {a,b,space}; "
                "(random) the generic Layer-C generator (all combinators, stack operations, call limits). Non-trivial = the parse fails with a ParsingError and either "
                "at least two reportable attempts count as failures at the reported position or some reportable attempt was made under a negative predicate; "
                "distinct by case text. Inputs: the (small) family also runs on \\n, a\\n, a\\r\\nb, \\rb; in (glike), (vm), (random) one case in 3-4 is followed by the "
                "same tree / grammar on its input with \\n, \\r, \\r\\n, \\n\\n or a two-byte character inserted at / in place of / in front of the position the parse "
                "reported (any position when it succeeded); vm grammars also use NEWLINE and \"\\n\". Position (a) is checked on the DELIVERED error: "
                "Error::location against the forest, Error::line_col against the line / column of the furthest failure counted directly from the input text "
                "(pest::state on closure trees; for Vm::parse: location and line_col of its error agree with each other and with the transcription's).",
        "exhaustive": True,
        "exhaustive_bound": "the `small` family (see rule); the theorems are unbounded",
        "samples": ["lim=- det=0 in=- env=- prog=(rule 0 (else (rule 1 (str 61)) (rule 2 (str 62))))",
                    "lim=- det=0 in=61 env=- prog=(rule 0 (seq (then (look ! (rule 1 (str 61))) (rule 2 (str 62)))))"] + corpus[:3],
        "runner_cases": stats.get("cases", 0),
        "mismatches": len([m for m in mism if m["kind"] != "known"]),
        "failing_parses_checked_against_spec": stats.get("spec_checked", 0),
        "vm_cases": stats.get("vm_cases", 0),
        "failing_parses_whose_furthest_failure_is_on_a_line_terminator": stats.get("failure_on_line_terminator", 0),
        "known_class_cases": stats.get("known_class", 0),
        "known_witness_reproduced": reproduced,
        "outcomes": {k: stats.get(k, 0) for k in ("ok", "failing", "panics", "diverged")},
    })
    res.assumptions = ["the generated-parser back-end is covered through C02 (generator = VM); here: ParserState closure trees and pest_vm::Vm",
                       "\"did not match\" is read with the sign of the enclosing predicates: a rule that fails under a negative predicate is not a failure of the parse",
                       "\"unless exactly one such rule was tried\": read recursively over the attempt forest (DESIGN.md section 2); the literal set reading is refuted on KnownClass, "
                       "the counted reading (comment in track()) is proved without exception"]
    return res.finish()
