"""C03 - parser-state combinators are all-or-nothing and match exactly."""
import re
from common import *

META = {
    "property_id": "C03",
    "level": "proof",
    "technique": "Coq proofs by induction on fuel over a deep embedding of ParserState closure trees (frame invariant + C11 refinement as ghost state); "
                 "model tied to parser_state.rs/position.rs by differential runs (exhaustive small trees, random deep trees) of the extracted interpreter against the real ParserState through a cfg-guarded dump hook, with and without memchr",
    "text": "Theorem C03_combinators_partial (coq/props/C03.v, closed under the global context), for every configuration, closure environment, program tree, fuel and well-formed state: "
            "(1) a failed sequence leaves position, token queue (up to node tags) and stack contents as they were; (2) any look-ahead, succeeding or failing, leaves position, tokens (exactly) and stack "
            "as they were, and nothing is emitted or tagged while in look-ahead mode; (3) the rule contract: a rule succeeds/fails exactly when its body does, and outside look-ahead/atomic mode a success "
            "adds Start(pos)..End(rule,pos') cross-linked around exactly the body's tokens while a failure leaves the queue as it was, otherwise the rule adds nothing; (4) frame: no internal panic "
            "(index, splice, drain, underflow, unreachable!) in any mode incl. error detail, input/lookahead/atomicity/limit preserved, position <= |input| and monotone, snapshots balanced. "
            "The exact-token variant of (1) is refuted (C03_sequence_tag_refuted: tag_node inside a failing sequence re-tags an earlier token) and reported as a known finding. "
            "(5) primitives (coq/Comb/Utf8b.v): on valid UTF-8 input at a char boundary match_string / match_insensitive / match_range / match_char_by / skip / skip_until never slice off a boundary, "
            "advance over exactly the matched text, always to a boundary, and do not move on failure; (6) whole programs keep the position on a boundary of valid UTF-8 (no boundary panic), "
            "and the memchr-accelerated search (as repaired by the fix: commit) equals the plain loop (exec_memchr_eq_basic; the pre-fix arm is refuted by C03_memchr_unfixed_refuted). "
            "PARTIAL: the equality with a separately written reference interpreter over the naive stack is not a theorem yet; the contracts (1)-(6) are stated directly on the model instead.",
    "note": "Trusted: Coq kernel; extraction (ExtrOcamlBasic only); harness + dump hook; memmem/memchr iterators modelled by their specification (first / every offset of the bytes); "
            "closures restricted to the deep embedding `prog` (and_then/or_else chains, if on atomicity, named recursion).",
    "design_ref": "DESIGN.md section 3, C03",
    "coq_targets": ["props/C03.vo", "Extract/CombExtract.vo"],
    "bins": ["comb"],
}

TAGRE = re.compile(r"(E:\d+:\d+):[^:,]+:(\d+)")


def only_tag_differs(msg):
    m = re.match(r"failed sequence changed state: before\[(.*)\] after\[(.*)\]$", msg)
    if not m:
        return False
    a, b = m.group(1), m.group(2)
    return a != b and TAGRE.sub(r"\1:-:\2", a) == TAGRE.sub(r"\1:-:\2", b)


def setup():
    harness_build(["comb_nm"], crate="harness-nm")


def run(tier, seed, replay=None):
    res = Result("C03", tier, seed, "proof")
    thm = check_theorems("C03")
    proof_coverage(res, thm, "make -C coq props/C03.vo (coqc 8.16.1, full .vo build) + Print Assumptions", BASE_TRUST + [
        "model of parser_state.rs / position.rs written by hand (coq/Comb/*.v); stack via coq/Stack (C11)",
        "cfg-guarded read-only hook ParserState::verif_dump in /repo (pest/src/parser_state.rs)",
    ])
    rc, out = coq_make(["Extract/CombExtract.vo"])
    if rc != 0:
        thm["ok"] = False
        thm["problems"].append("extraction build failed")
    builds = [harness_build(["comb"]), harness_build(["comb_nm"], crate="harness-nm")]
    for brc, bout, _ in builds:
        if brc != 0:
            res.violation("harness does not build against the repository (is the verif_dump hook present?)",
                          {"theorem_or_correspondence": "C03 correspondence (build)", "log": bout[-3000:]}, no_failing_input=True)
            return res.finish()
    orc, oout, runner = ocaml_build("comb_runner", ["comb_model"])
    if orc != 0:
        res.violation("OCaml runner does not build", {"theorem_or_correspondence": "C03 extraction", "log": oout[-3000:]}, no_failing_input=True)
        return res.finish()
    hbin = os.path.join(builds[0][2], "comb")
    hbin_nm = os.path.join(builds[1][2], "comb_nm")

    if replay:
        case = json.load(open(replay)).get("case", "")
        rc, out = sh("%s one '%s' | %s" % (hbin, case, runner), timeout=120)
        m, st, _ = parse_runner_output(out)
        log("replay: %d disagreement(s)" % len(m))
        for x in m:
            log("  %s impl=%s expected=%s" % (x["kind"], x["impl"][:400], x["expected"][:400]))
            if x["kind"] == "spec" and not only_tag_differs(x["impl"]):
                res.violation("replayed case still violates a combinator contract", {"case": case, "detail": x["impl"]})
        return res.finish()

    corpus = [l.strip() for l in open(os.path.join(ROOT, "corpus", "C03.txt")) if l.strip() and not l.startswith("#")]
    ccmds = ["(%s) | %s" % (" ; ".join("%s one '%s'" % (hbin, c) for c in corpus), runner)] if corpus else []
    if tier == "quick":
        cmds = ["%s small 2 | %s" % (hbin, runner)]
        cmds += ["%s random 9000 %d 7 | %s" % (hbin, seed * 100 + i, runner) for i in range(6)]
        cmds += ["%s stack 15000 %d | %s" % (hbin, seed * 100 + 70 + i, runner) for i in range(2)]
        cmds += ["%s stackmatch | %s" % (hbin, runner), "%s stackmatch | %s --no-memchr" % (hbin_nm, runner)]
        cmds += ["%s small 2 | %s --no-memchr" % (hbin_nm, runner)]
        cmds += ["%s random 9000 %d 7 | %s --no-memchr" % (hbin_nm, seed * 100 + 50 + i, runner) for i in range(2)]
    else:
        cmds = ["%s small 4 | %s" % (hbin, runner), "%s small 3 | %s --no-memchr" % (hbin_nm, runner)]
        cmds += ["%s random 150000 %d 8 | %s" % (hbin, seed * 100 + i, runner) for i in range(10)]
        cmds += ["%s stack 200000 %d | %s" % (hbin, seed * 100 + 70 + i, runner) for i in range(2)]
        cmds += ["%s stackmatch | %s" % (hbin, runner), "%s stackmatch | %s --no-memchr" % (hbin_nm, runner)]
        cmds += ["%s random 150000 %d 8 | %s --no-memchr" % (hbin_nm, seed * 100 + 50 + i, runner) for i in range(4)]
    cmds = ccmds + cmds
    outs = run_pipeline(cmds, timeout=3000)
    mism, stats = [], {}
    for (rc, out), c in zip(outs, cmds):
        m, st, _ = parse_runner_output(out)
        if rc != 0 or "mismatches" not in st or "evaluations" not in st:
            mism.append({"kind": "harness", "case": c, "impl": "pipeline failed rc=%s" % rc, "expected": out[-400:]})
        mism += m
        for k, v in st.items():
            stats[k] = stats.get(k, 0) + v if isinstance(v, int) else v

    # direct oracle for "with and without the memchr-accelerated search": the same cases on the two real builds
    mc_dir = os.path.join(BUILD, "c03_memchr")
    os.makedirs(mc_dir, exist_ok=True)
    gen = "small 2" if tier == "quick" else "small 3"
    rnd = "random %d %d 7" % (8000 if tier == "quick" else 60000, seed * 100 + 33)
    run_pipeline(["(%s %s; %s %s) > %s/with.txt" % (hbin, gen, hbin, rnd, mc_dir), "(%s %s; %s %s) > %s/without.txt" % (hbin_nm, gen, hbin_nm, rnd, mc_dir)], timeout=1200)
    try:
        a = open(os.path.join(mc_dir, "with.txt")).read().split("\n")
        b = open(os.path.join(mc_dir, "without.txt")).read().split("\n")
        diffs = [(x, y) for x, y in zip(a, b) if x != y and not x.startswith("#") and "\t" in x and "\t" in y and x.split("\t")[0] == y.split("\t")[0]]
        stats["memchr_pairs_compared"] = min(len(a), len(b))
        if len(a) != len(b):
            mism.append({"kind": "harness", "case": "memchr comparison", "impl": "the two builds produced different numbers of cases", "expected": "%d vs %d" % (len(a), len(b))})
        for x, y in diffs[:200]:
            mism.append({"kind": "spec", "case": x.split("\t")[0], "impl": "memchr build and no-memchr build differ: with[%s] without[%s]" % (x.split("\t")[1][:300], y.split("\t")[1][:300]), "expected": "identical outcome"})
    except FileNotFoundError:
        mism.append({"kind": "harness", "case": "memchr comparison", "impl": "output missing", "expected": ""})
    spec_m = [m for m in mism if m["kind"] == "spec"]
    tag_m = [m for m in spec_m if only_tag_differs(m["impl"])]
    real_m = [m for m in spec_m if not only_tag_differs(m["impl"])]
    model_m = [m for m in mism if m["kind"] == "model"]
    other_m = [m for m in mism if m["kind"] not in ("spec", "model")]
    kf = {f.get("class"): f for f in known_findings("C03")}
    if tag_m:
        if "C03-tag-in-failed-sequence" in kf and kf["C03-tag-in-failed-sequence"].get("status") == "known":
            res.known_finding("class=C03-tag-in-failed-sequence tag_node inside a failing sequence re-tags an earlier End token and the tag is not restored "
                              "(%d generated cases this run; smallest: %s)" % (len(tag_m), min(tag_m, key=lambda m: len(m["case"]))["case"][:300]))
        else:
            w = min(tag_m, key=lambda m: len(m["case"]))
            res.violation("failed sequence left a node tag on an earlier token", {"theorem_or_correspondence": "C03 oracle: sequence contract (tags)", "case": w["case"], "detail": w["impl"]})
    if real_m:
        w = min(real_m, key=lambda m: len(m["case"]))
        res.violation("a documented combinator contract fails on the real ParserState: %s" % w["impl"][:300],
                      {"theorem_or_correspondence": "C03 oracle: combinator contracts observed on the real code", "case": w["case"], "detail": w["impl"],
                       "count": len(real_m)})
    if model_m:
        w = min(model_m, key=lambda m: len(m["case"]))
        res.violation("correspondence broken: the real ParserState differs from coq/Comb/Exec.v on case %s" % w["case"][:300],
                      {"theorem_or_correspondence": "C03 correspondence: impl vs extracted Comb.Exec (full state dump + state() outcome)",
                       "case": w["case"], "impl": w["impl"], "model": w["expected"], "count": len(model_m)},
                      no_failing_input=not real_m)
    for m in other_m[:3]:
        res.violation("harness failure: " + m["impl"], {"theorem_or_correspondence": "C03 correspondence (run)", "log": m["expected"], "cmd": m["case"]}, no_failing_input=True)
    if not thm["ok"]:
        res.violation("proof obligation no longer checks: " + "; ".join(thm["problems"]),
                      {"theorem_or_correspondence": "coq/props/C03.v", "log": thm["log"][-3000:]}, no_failing_input=not real_m)

    if tier == "thorough" and (thm is None or thm["ok"]):
        thorough_coqchk(res, "C03")
    res.coverage.update({
        "evaluations": stats.get("evaluations", 0),
        "distinct_nontrivial": stats.get("distinct_nontrivial", 0),
        "rule": "closure trees: all leaves, all unary wrappers of leaves and of two-leaf then/else chains, two-level wrappers around push/rule/tag cores, x all inputs of length <= 3 over {a,b,e-acute,B}; "
                "plus stack-heavy trees (distinct literals pushed/dropped across nested scopes forced to succeed or fail), plus random trees to depth 7 (with up to two named closures, error detail on for a third) x 3 random inputs each; both with memchr and without. "
                "Non-trivial = a failing sequence or any look-ahead whose body had changed position, queue or stack before it was undone; distinct by case text.",
        "samples": ["lim=- det=0 in=6162 env=- prog=(seq (then (push (str 61)) (then (rule 2 (str 62)) err)))",
                    "lim=- det=1 in=61c3a9 env=(rule 1 (str 61)) prog=(look ! (then (call 0) (range 97 122)))"],
        "ok_results": stats.get("ok", 0), "panics": stats.get("panics", 0), "diverged": stats.get("diverged", 0),
        "runner_cases": stats.get("cases", 0), "mismatches": len(mism), "tag_cases": len(tag_m),
    })
    res.assumptions = ["inputs up to 5 chars over a 4-symbol alphabet incl. one 2-byte char in the differential runs (the theorems are unbounded)"]
    return res.finish()
