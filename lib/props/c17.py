"""C17 - the debugger reports exactly the breakpoint hits of the parse under any timing."""
from common import *

META = {
    "property_id": "C17",
    "level": "proof",
    "technique": "Coq proof by invariants over all schedules of a two-thread transition system (park token, is_done flag, bounded "
                 "channel, mutex, join) modelling debugger/src/lib.rs control point by control point; tied to the code by forcing "
                 "model schedules on the real threads through cfg-guarded yield points and comparing control-point traces, events and termination",
    "text": "PARTIAL BY NATURE (spurious wake-ups of thread::park, OS scheduling fairness and memory orderings below SeqCst cannot be exhibited "
            "by the model; C17_spurious_wakeup_breaks_quiet proves what a spurious wake-up would allow). Theorems in coq/props/C17.v, all closed "
            "under the global context, for ALL entry lists, outcomes, breakpoint sets, command histories (run, cont, add/delete breakpoint, recv, "
            "re-run), channel capacities >= 1 and schedules: C17_repaired_outside_known_class (code with fixes/C17-1-final-send.patch): delivered "
            "events = breakpoint hits (w.r.t. the set at lookup time) of a prefix of the parse, then at most the plain outcome; quiet while parked "
            "(deliveries <= wake-ups + 1, wake-ups <= unparks); deliveries <= 1 + cont; every schedule is finite; and a re-run started with every "
            "delivered event received never leaves both threads blocked in join, provided every cont() answered a received breakpoint event "
            "(KnownClass = a cont() without an unanswered event: C17_full_statement_refuted_repaired shows a stale park token still hangs the re-run). "
            "C17_rerun_terminates_refuted / C17_full_statement_refuted_literal: the code as it is hangs (final send into the full channel during join; "
            "witness replayed on the real threads every run); C17_literal_safety: the safety clauses the unrepaired code does satisfy. "
            "Correspondence on every run: all complete schedules of the model with a bounded number of preemptions for 16 command histories over "
            "three grammars (one visiting SOI, ASCII_DIGIT, ANY, NEWLINE, EOI with breakpoints on those names) plus random histories/schedules are forced on the real DebuggerContext threads through the yield points of "
            "hooks/C17-yield-points.patch; the sequence of control points reached, the events received, cont()/run() results and termination "
            "(watchdog) must equal the extracted model's; a specification oracle independent of the model checks the received events against the "
            "breakpoint-filtered list of rule visits (built-in rules included) that a listener-free walk of the optimized grammar produces, and that "
            "breakpoint edits issued while the parse is stopped return (C17_breakpoint_edits_never_block: the Mutex is modelled with explicit acquire/release steps). "
            "Histories with pauses also run under natural timing (open gates; continue before the pending event is received included) against the specification oracle alone: "
            "nothing may be lost, the outcome must arrive before the channel closes. "
            "add_all_rules_breakpoints is a command of the model (CAdd over the grammar's rules under one guard) and of the histories. "
            "Front end (debugger/src/main.rs): whole sessions (options -b/-r, lines b d ba da r c l) are run through the real pest_debugger binary "
            "and its printed stops compared with the model driven as main.rs drives the API (parsing thread first, since the front end waits for "
            "each answer) and with a direct specification oracle (each run/continue prints the next visit whose rule is in the current set, then the outcome).",
    "note": "Trusted: Coq kernel; extraction (ExtrOcamlBasic only); harness/runner/driver; std::thread::park/unpark, sync_channel, Mutex, "
            "AtomicBool, JoinHandle by documented meaning (no spurious wake-ups, SeqCst everywhere); the parse abstracted to its listener-call "
            "list (entries from a listener-free walk of the optimized grammar, cross-checked with a plain pest_vm listener run; abort-panics flags from pest_vm); the controller modelled as debugger/src/main.rs uses the API "
            "(fresh sync_channel(1) per run, previous receiver kept until run() returned Ok). After an abort the VM may panic inside vm.parse "
            "(parser_state.rs queue[index] on the fresh ParserState the VM returns): modelled (PDead, run() = PreviousRunPanic, new session not started), reported as a finding.",
    "design_ref": "DESIGN.md section 3, C17; section 4 row 12",
    "coq_targets": ["props/C17.vo", "Extract/DebuggerExtract.vo"],
    "feature_bins": {"debugger": ["c17"]},
}

SHARDS = 8
KNOWN_CLASS = "C17-undisciplined-cont"


def hook_present():
    try:
        return "verif_hooks" in open(os.path.join(REPO, "debugger", "src", "lib.rs")).read()
    except OSError:
        return False


def cli_build(timeout=2400):
    """the real command-line front end (debugger/src/main.rs), built without the hook cfg from the tree under check"""
    hdir, target = harness_dir("harness")
    tdir = target + "-cli"
    rc, out = sh("cargo build --release --offline --bin pest_debugger 2>&1", cwd=os.path.join(REPO, "debugger"), timeout=timeout,
                 env={"CARGO_TARGET_DIR": tdir, "RUSTFLAGS": "-Awarnings"})
    return rc, out, os.path.join(tdir, "release", "pest_debugger")


def setup():
    rc, out, _ = cli_build()
    print(out[-1500:])
    return rc


def run_cli(hbin, runner, cli, header, nsessions, seed, res, mode):
    """whole sessions through the real pest_debugger binary (options -b/-r and command lines) against the model and the specification"""
    rc, gen = sh("%s gencli %d %d" % (runner, nsessions, seed), stdin=("\n".join(header) + "\n").encode(), timeout=300)
    cases = [l for l in gen.split("\n") if l and not (l.startswith("MODE\t") or l.startswith("CFG\t"))]
    d = os.path.join(BUILD, "c17.d")
    os.makedirs(d, exist_ok=True)

    def go(cases, delay, tag):
        n = max(1, min(SHARDS * 2, len(cases)))
        cmds = []
        for i in range(n):
            path = os.path.join(d, "cli-%s-%d.txt" % (tag, i))
            with open(path, "w") as f:
                f.write("\n".join(header + cases[i::n]) + "\n")
            cmds.append("%s cli %s %d < %s | %s cli" % (hbin, cli, delay, path, runner))
        mm, total = [], 0
        for rc, out in run_pipeline(cmds, timeout=1800):
            m, s, _ = parse_runner_output(out)
            total += s.get("cases", 0)
            if rc != 0 or "mismatches" not in s:
                mm.append({"kind": "harness", "case": "", "impl": "cli pipeline failed rc=%s" % rc, "expected": out[-800:]})
            for line in out.split("\n"):
                if line.startswith("MISMATCH\t"):
                    p = line.split("\t")
                    mm.append({"kind": p[1], "case": "\t".join(p[2:6]), "impl": p[6] if len(p) > 6 else "", "expected": p[7] if len(p) > 7 else ""})
        return mm, total
    mm, total = go(cases, 40, "a")
    if mm:
        # the front end is driven with natural timing: repeat what differed with ten times the pause between lines,
        # only what differs again is reported
        again = sorted(set(m["case"] for m in mm if m["case"]))
        mm2, _ = go(again, 400, "b") if again else ([], 0)
        mm = [m for m in mm if not m["case"]] + mm2
    return mm, total, cases[:3]


def run_free(hbin, runner, header, n, seed):
    """histories under natural timing (open gates, pauses in the history) against the specification oracle; what differs is run a second time"""
    rc, gen = sh("%s genfree %d %d" % (runner, n, seed), stdin=("\n".join(header) + "\n").encode(), timeout=300)
    cases = [l for l in gen.split("\n") if l and not (l.startswith("MODE\t") or l.startswith("CFG\t"))]
    # continue issued before the pending event was received, several hits to come (nothing may be lost)
    # Z = the controller thinks for 6.5 s after a stop: the parse must stay stopped (nothing is delivered without a continue)
    cases = ["ident\t1\t2\tR,V,Z,V,K,V", "ident\t1\t2\tR,K,S,V,V,K,S,V", "builtin\t1\t1\tR,K,S,V,S,V,K,S,V,K,V", "ident\t1\t0,1,2,3\tR,K,K,S,V,S,V,S,V"] + cases
    d = os.path.join(BUILD, "c17.d")
    os.makedirs(d, exist_ok=True)

    def go(cases, tag):
        k = max(1, min(SHARDS, len(cases)))
        cmds = []
        for i in range(k):
            path = os.path.join(d, "free-%s-%d.txt" % (tag, i))
            with open(path, "w") as f:
                f.write("\n".join(header + cases[i::k]) + "\n")
            cmds.append("%s free < %s | %s check" % (hbin, path, runner))
        mm, total = [], 0
        for rc, out in run_pipeline(cmds, timeout=1800):
            m, st, _ = parse_runner_output(out)
            total += st.get("cases", 0)
            if rc != 0 or "mismatches" not in st:
                mm.append({"kind": "harness", "case": "", "impl": "free pipeline failed rc=%s" % rc, "expected": out[-800:]})
            mm += parse_mismatch_lines(out)
        return mm, total
    mm, total = go(cases, "a")
    again = sorted(set("\t".join(m["case"].split("\t")[:4]) for m in mm if m["case"]))
    if again:
        mm2, _ = go(again, "b")
        mm = [m for m in mm if not m["case"]] + mm2
    return mm, total


def cli_describe(case):
    f = case.split("\t")
    if len(f) < 4:
        return case
    return "grammar=%s options=[-b {%s}%s] lines=[%s]" % (f[0], f[1], " -r" if f[2] == "1" else "", f[3])


def run_shards(hbin, runner, header, cases, timeout):
    """force the cases on the real code in parallel shards; returns (mismatches, stats, known lines)"""
    d = os.path.join(BUILD, "c17.d")
    os.makedirs(d, exist_ok=True)
    n = max(1, min(SHARDS, len(cases)))
    cmds = []
    for i in range(n):
        path = os.path.join(d, "shard%d.txt" % i)
        with open(path, "w") as f:
            f.write("\n".join(header + cases[i::n]) + "\n")
        cmds.append("%s force < %s | %s check" % (hbin, path, runner))
    outs = run_pipeline(cmds, timeout=timeout)
    mism, stats, known = [], {}, []
    for rc, out in outs:
        m, s, other = parse_runner_output(out)
        if rc != 0 or "mismatches" not in s:
            mism.append({"kind": "harness", "case": "", "impl": "pipeline failed rc=%s" % rc, "expected": out[-800:]})
        mism += parse_mismatch_lines(out)
        known += [l for l in other if l.startswith("KNOWN\t")]
        for k, v in s.items():
            stats[k] = stats.get(k, 0) + v if isinstance(v, int) else v
    return mism, stats, known


def parse_mismatch_lines(out):
    """parse_runner_output splits on tabs; C17 cases contain tabs, so re-parse MISMATCH lines here."""
    res = []
    for line in out.split("\n"):
        if line.startswith("MISMATCH\t"):
            p = line.split("\t")
            if len(p) >= 9:
                res.append({"kind": p[1], "case": "\t".join(p[2:7]), "impl": p[7], "expected": p[8]})
            else:
                res.append({"kind": p[1], "case": "\t".join(p[2:]), "impl": "", "expected": ""})
    return res


def describe(case):
    f = case.split("\t")
    if len(f) < 5:
        return case
    return "grammar=%s capacity=%s breakpoints={%s} commands=[%s] schedule=%s" % (f[0], f[1], f[2], f[3], f[4])


def run(tier, seed, replay=None):
    res = Result("C17", tier, seed, "proof")
    thm = check_theorems("C17")
    proof_coverage(res, thm, "make -C coq props/C17.vo (coqc 8.16.1, full .vo build) + Print Assumptions", BASE_TRUST + [
        "model of debugger/src/lib.rs written by hand (coq/Debugger/Proto.v): one step per yield point; park token, SeqCst flag, mutex, "
        "sync_channel(k), join by documented meaning; no spurious wake-ups",
        "parse abstracted to the list of listener calls (taken from a plain pest_vm run in the harness)",
    ])
    rc, out = coq_make(["Extract/DebuggerExtract.vo"])
    if rc != 0:
        thm["ok"] = False
        thm["problems"].append("extraction build failed")
    if tier == "thorough" and thm["ok"]:
        crc, cout = coqchk("C17")
        if crc != 0:
            thm["ok"] = False
            thm["problems"].append("coqchk failed: " + cout[-500:])

    def proof_violation(spec_found=False):
        if not thm["ok"]:
            res.violation("proof obligation no longer checks: " + "; ".join(thm["problems"]),
                          {"theorem_or_correspondence": "coq/props/C17.v", "log": thm["log"][-3000:]}, no_failing_input=not spec_found)

    if not hook_present():
        res.violation("the yield-point hook (hooks/C17-yield-points.patch, mod verif_hooks in debugger/src/lib.rs) is absent from %s: "
                      "the correspondence between coq/Debugger/Proto.v and the real threads cannot be run, schedules cannot be forced" % REPO,
                      {"theorem_or_correspondence": "C17 correspondence (yield-point hook missing)",
                       "missing": "debugger/src/lib.rs: #[cfg(pest_parser_pest_verif)] pub mod verif_hooks"}, no_failing_input=True)
        proof_violation()
        return res.finish()
    brc, bout, bdir = harness_build(["c17"], features="debugger")
    if brc != 0:
        res.violation("harness does not build against %s (correspondence C17 cannot run)" % REPO,
                      {"theorem_or_correspondence": "C17 correspondence (build)", "log": bout[-3000:]}, no_failing_input=True)
        proof_violation()
        return res.finish()
    orc, oout, runner = ocaml_build("c17_runner", ["debugger_model"])
    if orc != 0:
        res.violation("OCaml runner does not build", {"theorem_or_correspondence": "C17 extraction", "log": oout[-3000:]}, no_failing_input=True)
        return res.finish()
    hbin = os.path.join(bdir, "c17")
    crc, cout, clibin = cli_build()
    if crc != 0:
        res.violation("the pest_debugger binary does not build from %s (front-end correspondence cannot run)" % REPO,
                      {"theorem_or_correspondence": "C17 front-end correspondence (build)", "log": cout[-3000:]}, no_failing_input=True)
        proof_violation()
        return res.finish()

    rc, ent = sh("%s entries" % hbin, timeout=120)
    header = [l for l in ent.split("\n") if l.startswith("MODE\t") or l.startswith("CFG\t")]
    mode = header[0].split("\t")[1] if header and header[0].startswith("MODE") else "?"
    if rc != 0 or mode not in ("literal", "fixed"):
        res.violation("harness probe failed (mode=%s): the yield points are not reached" % mode,
                      {"theorem_or_correspondence": "C17 correspondence (probe)", "log": ent[-2000:]}, no_failing_input=True)
        proof_violation()
        return res.finish()
    log("C17: repository is in mode `%s` (%s)" % (mode, "fixes/C17-1-final-send.patch applied" if mode == "fixed" else "final send unguarded"))

    if replay and json.load(open(replay)).get("front_end"):
        case = json.load(open(replay)).get("case", "")
        rc, out = sh("%s cli %s 300 | %s cli" % (hbin, clibin, runner), stdin=("\n".join(header + [case]) + "\n").encode(), timeout=120)
        log("replay %s" % cli_describe(case))
        bad = [l for l in out.split("\n") if l.startswith("MISMATCH")]
        for l in bad:
            log("  " + l[:900])
        if bad:
            p = bad[0].split("\t")
            res.violation("replayed session still differs (%s): %s" % (p[1], p[-1][:300]), {"case": case, "front_end": True, "impl": p[6] if len(p) > 6 else ""},
                          no_failing_input=(p[1] != "spec"))
        return res.finish()
    if replay:
        case = json.load(open(replay)).get("case", "")
        if case.split("\t")[3:4] == ["contend"]:
            rc, out = sh("%s contend" % hbin, timeout=300)
        elif case.split("\t")[4:5] == ["FREE"]:      # a history under natural timing
            rc, out = sh("%s free | %s check" % (hbin, runner), stdin=("\n".join(header + ["\t".join(case.split("\t")[:4])] * 3) + "\n").encode(), timeout=120)
        else:
            rc, out = sh("%s force | %s check" % (hbin, runner), stdin=("\n".join(header + [case]) + "\n").encode(), timeout=120)
        mm = parse_mismatch_lines(out)
        log("replay %s" % describe(case))
        for l in out.split("\n"):
            if l.startswith("KNOWN\t"):
                log("  " + l[:600])
        for x in mm:
            log("  %s: impl=%s\n      expected=%s" % (x["kind"], x["impl"][:700], x["expected"][:700]))
        spec = [x for x in mm if x["kind"] == "spec"]
        if spec:
            res.violation("replayed schedule still violates the property: " + spec[0]["expected"], {"case": case, "impl": spec[0]["impl"]})
        elif mm:
            res.violation("replayed schedule: real threads differ from the model", {"case": case, "impl": mm[0]["impl"], "model": mm[0]["expected"]},
                          no_failing_input=True)
        return res.finish()

    bound, nrandom = (2, 160) if tier == "quick" else (4, 4000)
    rc, gen = sh("%s gen %d %d %d" % (runner, bound, nrandom, seed), stdin=("\n".join(header) + "\n").encode(), timeout=600)
    cases = [l for l in gen.split("\n") if l and not (l.startswith("MODE\t") or l.startswith("CFG\t"))]
    # the witness of DESIGN.md section 4 row 12 always runs first (it is the model's refutation witness with all rules as breakpoints)
    corpus = ["ident\t1\t0,1,2,3\tR,V,K,R\tCCCPPPPCCCCPPCCCCPPPP" + ("" if mode == "literal" else "PPPCCCPPPP"),
              # coq/Debugger/Witness.v w2: cont twice, stale park token, re-run hangs with or without the repair
              "ident\t1\t0,1,2,3\tR,V,K,K,R\tCCCPPPPCCCCPCCCCPPPPPPCCC"]
    mism, stats, known = run_shards(hbin, runner, header, corpus + cases, timeout=900 if tier == "quick" else 7200)

    cli_m, cli_total, cli_samples = run_cli(hbin, runner, clibin, header, 60 if tier == "quick" else 1500, seed, res, mode)
    cli_spec = [m for m in cli_m if m["kind"] == "spec"]
    if cli_spec:
        w = min(cli_spec, key=lambda m: len(m["case"]))
        res.violation("property violated through the command-line front end: %s: %s" % (w["expected"], cli_describe(w["case"])),
                      {"theorem_or_correspondence": "C17 oracle: pest_debugger binary vs specification (events = breakpoint hits of the parse, one per run/continue)",
                       "case": w["case"], "front_end": True, "impl": w["impl"], "spec": w["expected"], "mode": mode, "others": len(cli_spec) - 1,
                       "legend": "options -b <rule index in the CFG line>, -r; lines b<k> d<k> ba da r c l; observation: B<rule>@<byte position>, EOF, ERR, cont=eof, cont=norun, L<set>"})
    elif cli_m:
        w = min(cli_m, key=lambda m: len(m["case"]))
        res.violation("front-end correspondence broken: the pest_debugger binary does not print what the model of main.rs + lib.rs gives on %s, "
                      "but the output is allowed by the specification" % cli_describe(w["case"]),
                      {"theorem_or_correspondence": "C17 front-end correspondence: binary vs extracted model (parsing thread first)",
                       "case": w["case"], "front_end": True, "impl": w["impl"], "model": w["expected"]}, no_failing_input=True)

    free_m, free_total = run_free(hbin, runner, header, 120 if tier == "quick" else 4000, seed)
    mism += free_m
    # a second thread reading the breakpoint set (list_breakpoints(&self)) while a long session runs
    for _ in range(1 if tier == "quick" else 5):
        crc, cout = sh("%s contend" % hbin, timeout=300)
        cm = parse_mismatch_lines(cout)
        if crc != 0 or "#RUNNER" not in cout:
            cm.append({"kind": "harness", "case": "contend", "impl": "c17 contend failed rc=%s" % crc, "expected": cout[-600:]})
        mism += cm
    spec_m = [m for m in mism if m["kind"] == "spec"]
    model_m = [m for m in mism if m["kind"] == "model"]
    other_m = [m for m in mism if m["kind"] not in ("spec", "model")]
    if spec_m:
        worst = min(spec_m, key=lambda m: (len(m["case"].split("\t")[3]) if m["case"].count("\t") >= 4 else 999, len(m["case"])))
        hang = worst["impl"].endswith("|HANG") or "TIMEOUT-STUCK@r_" in worst["impl"]
        res.violation(("run() never returns although every delivered event had been received: " if hang else "property violated: %s: " % worst["expected"])
                      + describe(worst["case"]),
                      {"theorem_or_correspondence": "C17 oracle: real threads vs specification (C17_statement clause %s)" % ("4" if hang else "1-3"),
                       "case": worst["case"], "impl": worst["impl"], "spec": worst["expected"], "mode": mode,
                       "schedule_legend": "C = one step of the controller, P = one step of the parsing thread, a step = code between two yield points; "
                                          "commands R run, V recv, K cont, A<r>/D<r> add/delete breakpoint (rule index in the CFG line of `c17 entries`), L add_all_rules_breakpoints",
                       "others": len(spec_m) - 1})
    elif model_m:
        worst = min(model_m, key=lambda m: (m["impl"].startswith("SKIPPED"), len(m["case"])))
        res.violation("correspondence broken: the real threads do not follow coq/Debugger/Proto.v on %s, but no schedule was found on which "
                      "the received events or termination violate the specification" % describe(worst["case"]),
                      {"theorem_or_correspondence": "C17 correspondence: real control-point trace / events / termination vs extracted model",
                       "case": worst["case"], "impl": worst["impl"], "model": worst["expected"], "searched": stats}, no_failing_input=True)
    for m in other_m[:3]:
        res.violation("harness failure: " + m["impl"], {"theorem_or_correspondence": "C17 correspondence (run)", "log": m["expected"]}, no_failing_input=True)
    if known:
        listed = [f for f in known_findings("C17") if f.get("class") == KNOWN_CLASS and f.get("status") == "known"]
        w = known[0].split("\t")
        what = "%s: cont() without an unanswered breakpoint event leaves a stale park token; a following re-run hangs in join even with the " \
               "final-send repair (%d schedules; e.g. %s)" % (KNOWN_CLASS, len(known), describe("\t".join(w[2:7])))
        if listed:
            res.known_finding(what)
        else:
            log("note (outside the proved class, see C17_full_statement_refuted_repaired; not listed in known_findings.json): " + what)
    if stats.get("abort_panics", 0):
        log("note: in %d forced schedules the parsing thread panicked after the listener's abort (vm.parse: fresh ParserState from the abort, "
            "parser_state.rs queue[index]); run() then returns PreviousRunPanic and does not start the new session (modelled: PDead/ORunPanic)"
            % stats["abort_panics"])
    if "#ENTRYDIFF" in ent:
        log("note: the VM's listener is not called for exactly the rule visits of the grammar walk (%s)" % ", ".join(
            l.split("\t")[1] for l in ent.split("\n") if l.startswith("#ENTRYDIFF")))
        if not spec_m and not model_m:
            res.violation("pest_vm's listener calls differ from the rule visits of the parse (grammar walk), but no forced schedule showed a wrong delivery",
                          {"theorem_or_correspondence": "C17 correspondence: listener calls vs grammar walk", "log": ent[-1500:]}, no_failing_input=True)
    proof_violation(bool(spec_m))

    res.coverage.update({
        "evaluations": stats.get("evaluations", 0),
        "distinct_nontrivial": stats.get("distinct_nontrivial", 0),
        "rule": "every complete schedule (run until no thread is enabled) of the extracted model with <= %d preemptions for 16 command histories "
                "over 3 grammars (ident_list on 'a b': 11 rule visits, Eof; r on 'xz': 4 visits, Error; line on '7 x\\n': 11 visits incl. SOI/ASCII_DIGIT/ANY/NEWLINE/EOI, Eof), capacity 1, plus %d random histories "
                "(3-12 commands, random breakpoint sets, capacity 1 or 2) with random complete schedules; non-trivial = the parsing thread takes "
                "steps and the history contains a cont or a re-run; distinct by (history, schedule)" % (bound, nrandom),
        "exhaustive": True,
        "exhaustive_bound": "<= %d preemptive context switches per schedule (the theorems are unbounded)" % bound,
        "mode": mode,
        "hangs_observed": stats.get("hangs", 0),
        "known_undisciplined_hangs": len(known),
        "step_timeouts": stats.get("timeouts", 0),
        "abort_panics_observed": stats.get("abort_panics", 0),
        "samples": corpus + cases[:3],
        "runner_cases": stats.get("cases", 0),
        "front_end_sessions": cli_total,
        "natural_timing_histories": free_total,
        "front_end_samples": cli_samples,
        "mismatches": len(mism),
    })
    res.assumptions = ["no spurious wake-ups of thread::park; SeqCst for every flag access (run() loads Relaxed)",
                       "controller uses the API as debugger/src/main.rs does (fresh sync_channel per run, receiver replaced after run() returned Ok)",
                       "cont() only answers received breakpoint events (outside: KnownClass, refuted by C17_full_statement_refuted_repaired)"]
    return res.finish()
