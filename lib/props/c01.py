"""C01 - parsing conforms to the documented PEG semantics of the grammar language."""
from common import *

HAS_PROOF = os.path.exists(os.path.join(COQ, "props", "C01.v"))

META = {
    "property_id": "C01",
    "level": "proof" if HAS_PROOF else "exploration",
    "technique": "Coq: executable specification of the documented PEG semantics (Peg/Spec.v) and refinement theorem vm_refines_spec "
                 "(pest_vm compiled to ParserState programs refines the Spec, by induction on fuel over the proved Layer-C contracts); "
                 "tied to the code by differential runs: real parse_and_optimize + pest_vm vs the extracted Spec on the original grammar and "
                 "vs the extracted VM model on the really optimized rules, default features and grammar-extras",
    "text": "Layer S (coq/Peg/Spec.v) is the documented semantics written out (DESIGN.md Appendix A); coq/props/C01.v pins the full statement "
            "(for every accepted grammar outside the decidable known classes, the VM on the optimized rules succeeds with forest f iff Spec on the "
            "original grammar matches with forest f) and proves the refinement of Spec by the VM model for the fragment named there (C01_partial), "
            "with the optimizer theorem (C05) as an explicit hypothesis. Every run ties all three layers to the code: random grammars (all operators, "
            "modifiers, built-ins, stack operations, WHITESPACE/COMMENT of several modifiers, bounded repetitions, tags/PUSH_LITERAL with extras) x all "
            "inputs up to a length bound through the real pest_meta + pest_vm, compared with (a) extracted Spec on the original grammar (acceptance and "
            "token forest with exact spans: the property oracle) and (b) extracted exec(VmCompile) on the optimized rules printed by the real optimizer "
            "(tokens or error position/positives/negatives: model of vm/src/lib.rs + parser_state.rs).",
    "note": "Known classes (known_findings.json): PEEK/POP on an empty stack panic (documented ParserState contract) where the grammar documentation says no match; "
            "grammars changed by the unsound lister rewrite (C05). Trusted: Coq kernel, extraction, harness, the grammar printer of gram.rs (grammars are generated as ASTs and printed; "
            "the reader is C07's subject). Native stack depth and memory are outside the model.",
    "design_ref": "DESIGN.md section 3, C01; Appendix A",
    "coq_targets": (["props/C01.vo"] if HAS_PROOF else []) + ["Extract/PegExtract.vo"],
    "bins": ["c01"],
    "feature_bins": {"extras": ["c01"]},
}


def run(tier, seed, replay=None):
    res = Result("C01", tier, seed, META["level"])
    thm = None
    if HAS_PROOF:
        thm = check_theorems("C01")
        proof_coverage(res, thm, "make -C coq props/C01.vo (coqc 8.16.1, full .vo build) + Print Assumptions", BASE_TRUST + [
            "Spec (coq/Peg/Spec.v) = DESIGN.md Appendix A, the reading of derive/src/lib.rs documented in DESIGN.md section 2",
            "models of vm/src/lib.rs (coq/Peg/VmCompile.v) and parser_state.rs (coq/Comb) written by hand"])
    rc, out = coq_make(["Extract/PegExtract.vo"])
    if rc != 0:
        res.violation("extraction build failed", {"theorem_or_correspondence": "C01 extraction", "log": out[-3000:]}, no_failing_input=True)
        return res.finish()
    b1 = harness_build(["c01"])
    b2 = harness_build(["c01"], features="extras")
    for brc, bout, _ in (b1, b2):
        if brc != 0:
            res.violation("harness does not build against the repository", {"theorem_or_correspondence": "C01 correspondence (build)", "log": bout[-3000:]}, no_failing_input=True)
            return res.finish()
    orc, oout, runner = ocaml_build("peg_runner", ["peg_model"])
    if orc != 0:
        res.violation("OCaml runner does not build", {"theorem_or_correspondence": "C01 extraction", "log": oout[-3000:]}, no_failing_input=True)
        return res.finish()
    h1, h2 = os.path.join(b1[2], "c01"), os.path.join(b2[2], "c01")

    if replay:
        r = json.load(open(replay))
        log("replay of grammar-level cases: re-run `%s` and look for the recorded case" % r.get("cmd", ""))
        rc, out = sh(r.get("cmd", "true"), timeout=600)
        m, st, _ = parse_runner_output(out)
        hit = [x for x in m if x["case"] == r.get("case")]
        for x in hit:
            log("  %s impl=%s expected=%s" % (x["kind"], x["impl"][:300], x["expected"][:300]))
        if hit and any(x["kind"] == "spec" for x in hit):
            res.violation("replayed case still violates the documented semantics", {"case": r.get("case")})
        return res.finish()

    if tier == "quick":
        cmds = ["%s random 110 %d 4 | %s" % (h1, seed * 100 + i, runner) for i in range(7)]
        cmds += ["%s random 110 %d 4 | %s" % (h2, seed * 100 + 50 + i, runner) for i in range(5)]
        cmds += ["%s stack 250 %d 5 | %s" % (h1, seed * 100 + 80 + i, runner) for i in range(3)]
        cmds += ["%s stack 250 %d 5 | %s" % (h2, seed * 100 + 90, runner)]
        cmds += ["%s skip 150 %d 5 | %s" % (h1, seed * 100 + 95 + i, runner) for i in range(2)]
        cmds += ["%s opt 250 %d 4 | %s" % (h1, seed * 100 + 97 + i, runner) for i in range(2)]
        cmds += ["%s wide 120 %d 3 | %s" % (h1, seed * 100 + 99, runner)]
        cmds += ["%s insens 90 %d 4 | %s" % (h1, seed * 100 + 60, runner), "%s insens 60 %d 4 | %s" % (h2, seed * 100 + 61, runner)]
        cmds += ["%s zrep 220 %d 5 | %s" % (h1, seed * 100 + 62, runner), "%s zrep 120 %d 5 | %s" % (h2, seed * 100 + 63, runner)]
    else:
        cmds = ["%s random 1500 %d 5 | %s" % (h1, seed * 100 + i, runner) for i in range(9)]
        cmds += ["%s random 1500 %d 5 | %s" % (h2, seed * 100 + 50 + i, runner) for i in range(6)]
        cmds += ["%s stack 4000 %d 6 | %s" % (h1, seed * 100 + 80 + i, runner) for i in range(3)]
        cmds += ["%s stack 4000 %d 6 | %s" % (h2, seed * 100 + 90, runner)]
        cmds += ["%s skip 3000 %d 6 | %s" % (h1, seed * 100 + 95 + i, runner) for i in range(2)]
        cmds += ["%s opt 4000 %d 5 | %s" % (h1, seed * 100 + 97 + i, runner) for i in range(2)]
        cmds += ["%s wide 2000 %d 4 | %s" % (h1, seed * 100 + 99, runner)]
        cmds += ["%s insens 1200 %d 4 | %s" % (h1, seed * 100 + 60, runner), "%s insens 800 %d 4 | %s" % (h2, seed * 100 + 61, runner)]
        cmds += ["%s zrep 3000 %d 6 | %s" % (h1, seed * 100 + 62, runner), "%s zrep 1500 %d 6 | %s" % (h2, seed * 100 + 63, runner)]
    outs = run_pipeline(cmds, timeout=3300)
    mism, stats, known_lines = [], {}, []
    for (rc, out), c in zip(outs, cmds):
        m, st, other = parse_runner_output(out)
        if rc != 0 or "mismatches" not in st or "evaluations" not in st:
            mism.append({"kind": "harness", "case": c, "impl": "pipeline failed rc=%s" % rc, "expected": out[-400:]})
        for x in m:
            x["cmd"] = c
        mism += m
        known_lines += [l for l in other if l.startswith("KNOWN\t")]
        for k, v in st.items():
            stats[k] = stats.get(k, 0) + v if isinstance(v, int) else v

    kf = {f.get("class"): f for f in known_findings("C01") + known_findings("C05")}
    if stats.get("known_emptystack", 0):
        if kf.get("C01-emptystack", {}).get("status") == "known":
            ex = [l for l in known_lines if "\temptystack\t" in l]
            res.known_finding("class=C01-emptystack PEEK/POP on an empty stack panics (stack_peek/stack_pop `expect`) where the grammar documentation says the rule does not match "
                              "(%d generated cases this run; e.g. %s)" % (stats["known_emptystack"], ex[0].split("\t")[2][:200] if ex else "r0 = { (!PEEK ~ \"y\")* }"))
        else:
            res.violation("VM panics (empty stack) where Spec says no match", {"theorem_or_correspondence": "C01 oracle", "count": stats["known_emptystack"]})
    if stats.get("known_lister", 0):
        if kf.get("C05-lister", {}).get("status") == "known":
            res.known_finding("class=C05-lister the lister rewrite (x ~ y)* ~ x => x ~ (y ~ x)* changes the language (%d generated cases this run)" % stats["known_lister"])
        else:
            res.violation("optimized rules differ from Spec on grammars touched by lister", {"theorem_or_correspondence": "C01 oracle", "count": stats["known_lister"]})
    if stats.get("known_nodetag", 0):
        if kf.get("C01-node-tag", {}).get("status") == "known":
            ex = [l for l in known_lines if "\tnodetag\t" in l]
            res.known_finding("class=C01-node-tag (grammar-extras) `#t = e` labels the previously emitted node when e itself emits none "
                              "(%d generated cases this run; e.g. %s)" % (stats["known_nodetag"], ex[0].split("\t")[2][:200] if ex else ""))
        else:
            res.violation("VM tags a node that the tagged expression did not produce", {"theorem_or_correspondence": "C01 oracle", "count": stats["known_nodetag"]})
    spec_m = [m for m in mism if m["kind"] == "spec"]
    model_m = [m for m in mism if m["kind"] == "model"]

    # Escalated search (only after something broke and the runs above gave no input on which the documented semantics is violated):
    # (1) the grammars on which implementation and model differ are run again on more and longer inputs (C01_FOCUS in c01.rs);
    # (2) larger batches of every generator with fresh seeds.  Only `spec` mismatches (real Vm vs extracted Spec) count as failing inputs.
    escalation = None
    if (model_m or (thm is not None and not thm["ok"])) and not spec_m:
        escalation = {"focus_grammars": 0, "focus_cases": 0, "batch_cases": 0, "spec_mismatches": 0}
        by_cmd = {}
        for m in model_m:
            g = re.search(r" g=(.*?) og=", m["case"])
            if g and m.get("cmd"):
                by_cmd.setdefault(m["cmd"], [])
                if g.group(1) not in by_cmd[m["cmd"]]:
                    by_cmd[m["cmd"]].append(g.group(1))
        ecmds = []
        os.makedirs(REPLAYS, exist_ok=True)
        for c, gl in list(by_cmd.items())[:10]:
            gl = gl[:15]
            fp = os.path.join(REPLAYS, "C01-focus-%s.txt" % hashlib.sha1((c + "\n".join(gl)).encode()).hexdigest()[:10])
            with open(fp, "w") as f:
                f.write("\n".join(gl) + "\n")
            escalation["focus_grammars"] += len(gl)
            ecmds.append("C01_FOCUS=%s %s" % (fp, c))
        nfocus = len(ecmds)
        big = 2 if tier == "quick" else 10
        ecmds += ["%s zrep %d %d 6 | %s" % (h, 300 * big, seed * 100 + 1000 + i, runner) for i, h in enumerate((h1, h1, h2))]
        ecmds += ["%s insens %d %d 4 | %s" % (h, 100 * big, seed * 100 + 1010 + i, runner) for i, h in enumerate((h1, h1, h2))]
        ecmds += ["%s stack %d %d 6 | %s" % (h, 200 * big, seed * 100 + 1020 + i, runner) for i, h in enumerate((h1, h1, h2))]
        ecmds += ["%s random %d %d 4 | %s" % (h, 100 * big, seed * 100 + 1030 + i, runner) for i, h in enumerate((h1, h1, h2))]
        ecmds += ["%s skip %d %d 6 | %s" % (h1, 150 * big, seed * 100 + 1040, runner), "%s opt %d %d 4 | %s" % (h1, 150 * big, seed * 100 + 1041, runner),
                  "%s wide %d %d 3 | %s" % (h1, 80 * big, seed * 100 + 1042, runner)]
        eouts = run_pipeline(ecmds, timeout=1500)
        for i, ((rc, out), c) in enumerate(zip(eouts, ecmds)):
            m, st, _ = parse_runner_output(out)
            escalation["focus_cases" if i < nfocus else "batch_cases"] += st.get("cases", 0)
            for x in m:
                x["cmd"] = c
                if x["kind"] == "spec":
                    spec_m.append(x)
        escalation["spec_mismatches"] = len(spec_m)
        log("C01 escalated search: %s" % json.dumps(escalation))
    other_m = [m for m in mism if m["kind"] not in ("spec", "model")]
    if spec_m:
        w = min(spec_m, key=lambda m: len(m["case"]))
        res.violation("pest_vm differs from the documented semantics: real `%s` vs Spec `%s`" % (w["impl"][:120], w["expected"][:120]),
                      {"theorem_or_correspondence": "C01 oracle: real parse_and_optimize + Vm::parse vs extracted Peg.Spec on the original grammar",
                       "case": w["case"], "impl": w["impl"], "spec": w["expected"], "cmd": w.get("cmd"), "count": len(spec_m)})
    if model_m:
        w = min(model_m, key=lambda m: len(m["case"]))
        res.violation("correspondence broken: pest_vm differs from exec(VmCompile) on the optimized rules: real `%s` vs model `%s`" % (w["impl"][:120], w["expected"][:120]),
                      {"theorem_or_correspondence": "C01 correspondence: real Vm::parse vs extracted Comb.exec(Peg.VmCompile)", "case": w["case"], "impl": w["impl"],
                       "model": w["expected"], "cmd": w.get("cmd"), "count": len(model_m)}, no_failing_input=not spec_m)
    for m in other_m[:3]:
        res.violation("harness failure: " + m["impl"], {"theorem_or_correspondence": "C01 correspondence (run)", "log": m["expected"], "cmd": m["case"]}, no_failing_input=True)
    if thm is not None and not thm["ok"]:
        res.violation("proof obligation no longer checks: " + "; ".join(thm["problems"]),
                      {"theorem_or_correspondence": "coq/props/C01.v", "log": thm["log"][-3000:]}, no_failing_input=not spec_m)

    if tier == "thorough" and (thm is None or thm["ok"]):
        thorough_coqchk(res, "C01")
    res.coverage.update({
        "evaluations": stats.get("evaluations", 0),
        "distinct_nontrivial": stats.get("distinct_nontrivial", 0),
        "rule": "random grammars of 2-4 rules r0..r3 (calls to higher-numbered rules only) over all operators, the five rule types, built-ins, stack operations, bounded repetitions, "
                "optional WHITESPACE/COMMENT of several modifiers (tags and PUSH_LITERAL in the grammar-extras half), written in pest syntax and compiled by the real pest_meta; "
                "every accepted grammar x every input of length <= 4 (quick) / 5 (thorough) over {x, y, space}; plus stack-heavy grammars (two PUSHes, then bodies that POP/DROP/PEEK/PEEK_ALL/PEEK[i..j] under choices, optionals and repetitions) x all inputs <= 5/6 over {x, y}; plus skip-until grammars ((!(a | b | ..) ~ ANY)* with 1-4 stop literals sharing first bytes and prefixes, rule references inlined into the stop set, atomic and non-atomic rules) x all inputs <= 5/6 over {x, y}; plus optimizer-shaped grammars (common prefixes/tails of a choice, (x ~ y)* ~ x, literal runs, left-nested chains in rules of every modifier, called from every kind of rule, with WHITESPACE/COMMENT) x all inputs <= 4/5 over {x, y, space, #}; plus random and skip-until grammars on all inputs <= 3/4 over characters of every UTF-8 width {x, é, €, U+1F600, U+10FFFF}; plus case-insensitive literals over ASCII and non-ASCII cased letters (é/É ä/Ä ω/Ω я/Я ß/ẞ i/İ k/KELVIN s/ſ σ/Σ/ς ǆ/ǅ: alone, in ordered choices against the other case, under repetitions, in skip-until stop sets, captured and re-matched) x all inputs <= 4 over the alphabet derived from the grammar's literals and their other case (at most 6 characters, at most 700 inputs per grammar); plus zero-length stack-changing repetitions (DROP*, POP* over empty captures, (&'x' ~ DROP)*, (POP | DROP)*, a rule that drops; also + and {n,}) below 2-4 pushes followed by a stack reader (PEEK_ALL, POP_ALL, PEEK[..], !DROP, ..) x all inputs <= 5/6 over {x, y}. Non-trivial = the real parse succeeded with at least one pair; grammars are distinct by construction of the seeds.",
        "samples": ["x=0 r=r0 in=787920 g=(r0 n (seq (rep (id r1)) (neg (id ANY))));(r1 a (cho (str 78) (str 79)));(WHITESPACE s (str 20))"],
        "grammars_accepted": stats.get("grammars", 0), "grammars_rejected": stats.get("rejected", 0), "ok_parses": stats.get("ok", 0),
        "real_panics": stats.get("panics", 0), "call_limit_hits": stats.get("limits", 0), "spec_undecided": stats.get("spec_undecided", 0),
        "escalated_search": escalation if escalation is not None else "not run (nothing broke)",
        "runner_cases": stats.get("cases", 0), "mismatches": len(mism), "runner_timeouts": stats.get("timeouts", 0),
    })
    return res.finish()
