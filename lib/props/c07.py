"""C07 - the grammar reader reconstructs exactly the grammar that was written."""
from common import *

META = {
    "property_id": "C07",
    "level": "proof",
    "technique": "Coq proof over an executable model of meta/src/parser.rs (consume_rules_with_spans, unaries, get_node_tag, the postfix fold, unescape, "
                 "number parsing; the PrattParser instance is C13's model instantiated with the two .op() lines, its result obtained from C13's theorem "
                 "pratt = shunting-yard) against a specification of spelling (concrete expressions with explicit parentheses, precedence levels derived "
                 "from grammar.pest, token skeletons, positional numerals, escape forms); the lexical half (grammar.pest under Peg.Spec tokenises "
                 "the lexemes) proved for the lexical rules; model, transcription of grammar.pest and specification tied to the real pest_meta on every "
                 "run by generated rule sets x generated spellings read by the REAL parse + consume_rules",
    "text": "Theorem C07_partial (coq/props/C07.v, closed under the global context): (1) for every state of the tree (as shipped / with fixes/C07-1, C07-2), every text, every "
            "concrete grammar cg whose rule bodies are well-parenthesised (levels derived from grammar.pest: `|` < `~` < `#t =` < `&` `!` < postfix < atoms; `a | b | c` and "
            "`a ~ b ~ c` group to the left) and writable, and every token forest over the text with the shape tokens_of_grammar cg whose leaves cover legal lexemes (any escape "
            "form, leading zeros, any spans = any spacing/comments between tokens, redundant parentheses, doc lines, leading `|`), the model of consume_rules returns exactly "
            "abs cg: names, modifiers, operator structure (through C13's PrattParser theorem), prefix outside postfix, tag outermost in a term, counts, PEEK indices, unescaped "
            "literals; (2) every writable abstract tree has such a spelling with parentheses exactly where needs_parens demands (min_parens), and (3) where they are demanded and "
            "omitted the spelling coincides with that of another tree; (4) unescape is a left inverse of every spelling of every valid UTF-8 string (raw, named, \\xHH, \\u{2-6 "
            "digits}); (5) parse::<u32>/<i32> invert positional numerals with leading zeros; (6) C07_reduction: the full statement C07_statement (forall G text, spells_grammar G "
            "text -> read text = Ok G, read = grammar.pest under Peg.Spec then consume) follows from C07_tokenisation_statement. Theorem C07_lexical: grammar.pest under Peg.Spec tokenises every lexeme "
            "as written (number, integer, identifier, tag_id, escape with its nine alternatives, string / inner_str, character / inner_chr, insensitive_string and range with gaps "
            "inside) into the token tree tokens_of expects, and the implicit skipping of a non-atomic rule consumes exactly a gap (blanks, newlines, nested block comments, line "
            "comments). FULL: C07_tokenisation (coq/Meta/Tok*.v) proves that Spec on the transcribed grammar.pest tokenises every legal spelling of a whole grammar (expression-level rules, "
            "operators, counted repetitions, PUSH / PUSH_LITERAL / PEEK slices, tags, doc comments, leading `|`, trailing gaps) as tokens_of_grammar cg, and C07_reader_reconstructs : C07_statement "
            "closes the property: spells_grammar G text -> the repaired reader returns G. It is also checked on every run: the extracted Spec run of the transcribed "
            "grammar.pest must return the real parser's forest, which must have the shape tokens_of_grammar cg, for every generated spelling. The same statement about the code AS SHIPPED is "
            "refuted in Coq (C07_insens_space_refuted: `a = { ^ \"b\" }` reads as Insens(\"\\\"b\"); C07_nested_leading_bar_refuted: `a = { (| b | c) }` panics; both legal per "
            "grammar.pest) and on the real code in every run; with fixes/C07-1 and fixes/C07-2 applied (probed) the repaired model applies and both witnesses must read back correctly."
            " Spellings include hostile comments (runs of * and / next to the terminator, nested comments, // ending the text); when the real meta-grammar differs from the transcription, every word over the terminals of the differing rules is inserted at every offset of base spellings and the real reader is compared with the written AST / the specification reader.",
    "note": "Trusted: Coq kernel; extraction (ExtrOcamlBasic only); harness/runner/driver; Peg.Spec as the meaning of grammar.pest; the hand transcription of grammar.pest (compared "
            "with the real reader's AST of the file on every run); the hand-written model of parser.rs (ParserNode spans and validate_ast not modelled; unescape over bytes instead of "
            "chars; Expr::Range strings abstracted to code points). Restrictions of spells_grammar: identifiers / rule names not starting with PUSH, \\u{..} with 2-6 digits, counts in "
            "u32 and not 0 for {n} {,n} {m,n}, PEEK indices in i32, tags and PUSH_LITERAL only with grammar-extras, a final line comment / doc line without newline not covered.",
    "design_ref": "DESIGN.md section 3, C07",
    "coq_targets": ["props/C07.vo", "Extract/MetaExtract.vo"],
    "bins": ["c07"],
    "feature_bins": {"extras": ["c07"]},
}

LEGEND = ("case x=<grammar-extras 0|1>|c=<concrete grammar>|t=<text, hex> (or x=..|m=1|t=.. : escalated search, expected reading = specification reader). concrete grammar (g <//! lines> <trailing /// lines> (r </// lines> <name> <n|s|a|c|x = "
          "normal,_ ,@,$,!> <leading | 0|1> <expr>)..); expr as in gram.rs sexp plus (paren <leading |> e), (push <leading |> e), strings as code points a.b.c, "
          "(slice - j) = PEEK[..j]. observation <result>|<token forest of the real parse>; result = Ok <grammar sexp (strings hex)> | Syntax | Err kind start end | "
          "Invalid (validate_ast rejected, not part of C07) | Panic")

CLASSES = {
    "insens-gap": ("text between `^` and the string of an insensitive literal (legal: insensitive_string = { \"^\" ~ string } is not atomic): parser.rs unescapes the "
                   "whole pair text and slices [2..len-1], so `a = { ^ \"b\" }` reads as Insens(\"\\\"b\"), `^/*c*/\"b\"` as Insens(\"*c*/\\\"b\") and `^ /* \\q */ \"b\"` panics",
                   "C07_insens_space_refuted"),
    "nested-bar": ("a leading `|` in a nested expression (legal: expression = { choice_operator? ~ term ~ .. }): only consume_rules_with_spans skips it, "
                   "consume_expr of a parenthesised / PUSH expression hands it to the PrattParser, which panics: `a = { (| b | c) }`, `a = { PUSH(| b) }`",
                   "C07_nested_leading_bar_refuted"),
}


def text_of(case):
    for f in case.split("|"):
        if f.startswith("t="):
            h = f[2:]
            try:
                return "" if h == "-" else bytes.fromhex(h).decode("utf-8", "replace")
            except ValueError:
                return h
    return ""


def run_cases(pipes, timeout):
    outs = run_pipeline(pipes, timeout=timeout)
    mism, stats, contracts, known = [], {}, [], []
    for (rc, out), cmd in zip(outs, pipes):
        m, s, other = parse_runner_output(out)
        if rc != 0 or "mismatches" not in s:
            mism.append({"kind": "harness", "case": cmd, "impl": "pipeline failed rc=%s" % rc, "expected": out[-600:]})
        mism += m
        for line in other:
            p = line.split("\t")
            if p[0] == "CONTRACT" and len(p) >= 3:
                contracts.append({"case": p[1], "detail": p[2]})
            elif p[0] == "KNOWN" and len(p) >= 5:
                known.append({"class": p[1], "case": p[2], "impl": p[3], "expected": p[4]})
        for k, v in s.items():
            stats[k] = stats.get(k, 0) + v if isinstance(v, int) else v
    return mism, stats, contracts, known


def run(tier, seed, replay=None):
    res = Result("C07", tier, seed, "proof")
    thm = check_theorems("C07")
    proof_coverage(res, thm, "make -C coq props/C07.vo (coqc 8.16.1, full .vo build) + Print Assumptions" +
                   ("; coqchk -o PV.props.C07" if tier != "quick" else ""), BASE_TRUST + [
        "model written by hand: coq/Meta/Consume.v + Unescape.v (meta/src/parser.rs); ParserNode spans and validate_ast are not modelled; "
        "unescape iterates bytes instead of chars (equivalent on UTF-8, argued in the file header); Expr::Range strings are abstracted to code points",
        "coq/Meta/Tokens.v meta_grammar is a transcription of grammar.pest, compared on every run with the AST the real reader produces for /repo/meta/src/grammar.pest",
        "specification written by hand: coq/Meta/Spell.v (precedence levels, token skeletons, spellings of numbers / characters / strings)",
        "C13 (coq/Pratt/*.v) for the PrattParser; Peg.Spec (Layer S) as the meaning of grammar.pest in `read`",
    ])
    rc, out = coq_make(["Extract/MetaExtract.vo"])
    if rc != 0:
        thm["ok"] = False
        thm["problems"].append("extraction build failed: " + out[-400:])
    if tier != "quick" and thm["ok"]:
        crc, cout = coqchk("C07", timeout=1500)
        res.coverage["coqchk"] = "ok" if crc == 0 else "FAILED rc=%d" % crc
        if crc != 0:
            thm["ok"] = False
            thm["problems"].append("coqchk failed: " + cout[-800:])
    builds = run_builds()
    for feat, (brc, bout, bdir) in builds.items():
        if brc != 0:
            res.violation("harness does not build against the repository (%s features; correspondence C07 cannot run)" % (feat or "default"),
                          {"theorem_or_correspondence": "C07 correspondence (build)", "log": bout[-3000:]}, no_failing_input=True)
            return res.finish()
    orc, oout, runner = ocaml_build("c07_runner", ["meta_model"])
    if orc != 0:
        res.violation("OCaml runner does not build", {"theorem_or_correspondence": "C07 extraction", "log": oout[-3000:]}, no_failing_input=True)
        return res.finish()
    hb = {feat: os.path.join(b[2], "c07") for feat, b in builds.items()}
    flags, fl = probe(hb[""])
    log("C07: implementation state (probe): literal of ^\"..\" %s, leading `|` in nested expressions %s, invalid escape %s, PEEK overflow %s -> model flags %s" % (
        "read from the inner string pair (fixes/C07-1)" if fl["fix_insens"] else "sliced from the whole pair text (as shipped)",
        "skipped by consume_expr (fixes/C07-2)" if fl["fix_bar"] else "not skipped (as shipped)",
        "Err" if fl["fix_literal_err"] else "panic", "Err" if fl["fix_peek_err"] else "panic", flags))
    runner = runner + " fix=" + flags
    res.coverage["tree_state"] = fl

    if replay:
        rp = json.load(open(replay))
        case = rp.get("case", "")
        feat = "extras" if case.startswith("x=1") else ""
        mism, stats, contracts, known = run_cases(["%s one '%s' | %s read=1" % (hb[feat], case.replace("'", "'\\''"), runner)], 120)
        log("replay: text %r" % text_of(case))
        for x in mism:
            log("  %s impl=%s expected=%s" % (x["kind"], x["impl"][:300], x["expected"][:300]))
        for k in known:
            log("  known class %s: impl=%s expected=%s" % (k["class"], k["impl"][:200], k["expected"][:200]))
        if contracts or known or any(x["kind"] == "spec" for x in mism):
            res.violation("replayed spelling is still not read back as the grammar that was written", {"case": case, "text": text_of(case), "legend": LEGEND})
        elif mism:
            res.violation("replayed case still differs from the model of the code", {"case": case, "legend": LEGEND}, no_failing_input=True)
        return res.finish()

    pipes, bounds = plan(tier, seed, hb, runner)
    mism, stats, contracts, known = run_cases(pipes, 160 if tier == "quick" else 3000)
    res.coverage["escalation"] = "not run: the real reader's AST of grammar.pest equals coq/Meta/Tokens.v meta_grammar"
    diff = metagrammar_diff(mism)
    if diff and not contracts and not any(m["kind"] == "spec" for m in mism):
        # the correspondence broke on grammar.pest itself and no generated spelling was read back wrongly: search for one
        epipes, edesc = escalation_plan(tier, diff, hb, runner)
        log("C07: grammar.pest differs from its transcription in %s; searching %s" % (", ".join(diff["rules"][:8]), edesc["what"]))
        m2, s2, c2, k2 = run_cases(epipes, 400 if tier == "quick" else 3000)
        mism += m2
        contracts += c2
        known += k2
        for k, v in s2.items():
            stats[k] = stats.get(k, 0) + v if isinstance(v, int) else v
        edesc.update({"candidates": s2.get("evaluations", 0),
                      "legal_spellings_of_a_base_grammar_checked_against_the_written_AST": s2.get("escalation_written_ast_oracle", 0),
                      "texts_given_to_the_specification_reader": s2.get("escalation_spec_reads", 0),
                      "of_which_it_reads_as_a_grammar": s2.get("escalation_read_as_a_grammar_by_the_specification", 0),
                      "of_which_the_real_reader_agrees": s2.get("escalation_agreeing", 0),
                      "failing_inputs_found": len([m for m in m2 if m["kind"] == "spec"]) + len(c2)})
        res.coverage["escalation"] = edesc
    elif diff:
        res.coverage["escalation"] = "not needed: grammar.pest differs from its transcription (%s) and generated spellings already fail" % ", ".join(diff["rules"][:8])
    report(res, thm, mism, stats, contracts, known, bounds)
    return res.finish()


def metagrammar_diff(mism):
    """The rules in which the real reader's AST of grammar.pest differs from the transcription, and the terminals of those rules (both versions)."""
    for m in mism:
        if m["kind"] == "model" and m["case"].startswith("metagrammar"):
            def rules(sx):
                d = {}
                for r in sx.split(";"):
                    r = r.strip()
                    if r.startswith("("):
                        d[r[1:].split(" ", 1)[0]] = r
                return d
            a, b = rules(m["impl"]), rules(m["expected"])
            names = [n for n in list(b) + [n for n in a if n not in b] if a.get(n) != b.get(n)]
            if not a:                                    # the real reader did not even read grammar.pest
                names = list(b)
            lits = []
            for n in names:
                for sx in (a.get(n, ""), b.get(n, "")):
                    for h in re.findall(r"\((?:str|ins) ([0-9a-f]+)\)", sx):
                        lits.append(h)
                    for lo, hi in re.findall(r"\(range (\d+) (\d+)\)", sx):
                        lits += [chr(int(lo)).encode("utf-8").hex(), chr(int(hi)).encode("utf-8").hex()]
            return {"rules": names, "literals": lits}
    return None


def escalation_plan(tier, diff, hb, runner):
    """Words over the terminals of the differing rules (whole literals, their characters, a letter, a blank, a newline), inserted at every
    offset of base spellings that use every token kind; see `escalate` in c07.rs."""
    units = []
    def add(h):
        if h and h not in units:
            units.append(h)
    count = {}
    for h in diff["literals"]:
        count[h] = count.get(h, 0) + 1
    for h in sorted(count, key=lambda h: (-count[h], len(h), h)):
        add(h)
    for h in list(units):
        try:
            for ch in bytes.fromhex(h).decode("utf-8"):
                add(ch.encode("utf-8").hex())
        except (ValueError, UnicodeDecodeError):
            pass
    units = units[:9]
    for h in ("61", "20", "0a"):
        add(h)
    n = len(units)
    scale = 1 if tier == "quick" else 8
    def maxlen(offsets, budget, cap):
        L, total = 0, 0
        while L < cap and offsets * (total + n ** (L + 1)) <= budget:
            L += 1
            total += n ** L
        return max(L, 1)
    len1, len2 = maxlen(10, 30000 * scale, 6), maxlen(110, 20000 * scale, 4)
    d, x = hb[""], hb["extras"]
    shards = 4
    pipes = ["%s escalate %s %d %d %d %d | %s read=1" % (d, ",".join(units), len1, len2, i, shards, runner) for i in range(shards)]
    pipes += ["%s escalate %s %d %d %d 2 | %s read=1" % (x, ",".join(units), len1, len2, i, runner) for i in range(2)]
    show = [bytes.fromhex(u).decode("utf-8", "replace") for u in units]
    return pipes, {"triggered_by": "the real reader's AST of grammar.pest differs from coq/Meta/Tokens.v meta_grammar", "differing_rules": diff["rules"],
                   "alphabet": show, "max_units_per_word": {"first base spelling": len1, "other base spellings": len2},
                   "what": "every word of <= %d (<= %d) units over %r inserted at every offset of the first (every other) base spelling; oracle: the written AST where the "
                           "word is a gap at a token boundary (reference scanner of Text.v `gap`), otherwise the specification reader" % (len1, len2, show)}


def probe(hbin):
    rc, out = sh("%s probe" % hbin, timeout=60)
    # when the probe cannot run expect the state the property describes (the repaired code)
    fl = {"fix_insens": 1, "fix_bar": 1, "fix_literal_err": 0, "fix_peek_err": 0}
    for line in out.split("\n"):
        if line.startswith("#PROBE"):
            for kv in line.split("\t")[1:]:
                k, v = kv.split("=")
                if k in fl:
                    fl[k] = int(v)
    return "%d%d%d%d" % (fl["fix_insens"], fl["fix_bar"], fl["fix_literal_err"], fl["fix_peek_err"]), fl


def run_builds():
    b = {"": harness_build(["c07"])}
    b["extras"] = harness_build(["c07"], features="extras")
    return b


ALL_OPS = "seq,cho,neg,pos,opt,rep,rep1,repx,repmin,repmax,repmm,push"


def plan(tier, seed, hb, runner):
    """(pipelines, description of the bounds)"""
    d, x = hb[""], hb["extras"]
    r8, r1, r0 = runner + " read=8", runner + " read=1", runner + " read=0"
    pipes = ["%s metagrammar | %s" % (d, r1), "%s witness | %s" % (d, r1), "%s witness | %s" % (x, r1)]
    if tier == "quick":
        shards, nrand, per, count = 4, 6, 5, 700
        pipes += ["%s exhaustive 2 %s 1 0 0 1 | %s" % (d, ALL_OPS, r8), "%s exhaustive 2 %s,tag 1 0 0 1 | %s" % (x, ALL_OPS, r8)]
        pipes += ["%s exhaustive 3 seq,cho,neg,rep 1 0 %d %d | %s" % (d, i, shards, r0) for i in range(shards)]
        bounds = "every expression tree of depth <= 2 over all 12 (13 with grammar-extras: tags) operators and of depth <= 3 over {~, |, !, *}"
    else:
        shards, nrand, per, count = 8, 12, 8, 6000
        pipes += ["%s exhaustive 2 %s 4 %d 0 1 | %s" % (d, ALL_OPS, seed, r8), "%s exhaustive 2 %s,tag 4 %d 0 1 | %s" % (x, ALL_OPS, seed, r8)]
        pipes += ["%s exhaustive 3 seq,cho,neg,rep,opt,push 1 0 %d %d | %s" % (d, i, shards, r0) for i in range(shards)]
        pipes += ["%s exhaustive 3 seq,cho,neg,rep 3 %d %d %d | %s" % (d, seed, i, shards, r8) for i in range(shards)]
        bounds = ("every expression tree of depth <= 2 over all 12 (13 with grammar-extras: tags) operators (4 spellings each), of depth <= 3 over "
                  "{~, |, !, *, ?, PUSH} (canonical spelling) and over {~, |, !, *} (3 spellings each)")
    pipes += ["%s random %d %d %d 4 | %s" % (d, count, seed * 1000 + i, per, r8) for i in range(nrand)]
    pipes += ["%s random %d %d %d 4 | %s" % (x, count, seed * 1000 + 500 + i, per, r8) for i in range(nrand // 2)]
    return pipes, bounds


def report(res, thm, mism, stats, contracts, known, bounds):
    spec_m = [m for m in mism if m["kind"] == "spec"] + [{"kind": "spec", "case": c["case"], "impl": c["detail"].split(" expected ")[0].replace("impl ", "", 1),
                                                          "expected": c["detail"].split(" expected ")[-1]} for c in contracts]
    model_m = [m for m in mism if m["kind"] == "model"]
    other_m = [m for m in mism if m["kind"] not in ("spec", "model")]
    if spec_m:
        # prefer a spelling whose written AST is known (c=..) to one whose meaning comes from the specification reader (m=1); then the shortest text
        worst = min(spec_m, key=lambda m: ("|m=" in m["case"], len(text_of(m["case"])) if "t=" in m["case"] else 10 ** 6, len(m["case"])))
        by_spec_reader = "|m=" in worst["case"]
        rp = {"theorem_or_correspondence": "C07 oracle: real parse + consume_rules of a generated spelling vs the generated AST (harness CONTRACT / runner spec)",
              "case": worst["case"], "text": text_of(worst["case"]), "impl": worst["impl"], "spec": worst["expected"],
              "spec_mismatches_seen": len(spec_m), "legend": LEGEND}
        if by_spec_reader:
            rp["theorem_or_correspondence"] = ("C07 oracle: real parse + consume_rules of a text vs the specification reader of C07_statement (the transcription of the "
                                               "unmodified grammar.pest under Peg.Spec, then consume), which reads the text as this grammar")
        if model_m:
            rp["correspondence_also_broken"] = "%s: impl `%s`, model `%s`" % (model_m[0]["case"][:120], model_m[0]["impl"][:400], model_m[0]["expected"][:400])
        res.violation("the grammar reader does not reconstruct the grammar that was written: the spelling %r is read as `%s`, %s `%s` (%d such spellings)"
                      % (text_of(worst["case"]), worst["impl"][:300], "the unmodified concrete syntax reads it as" if by_spec_reader else "written was",
                         worst["expected"][:300], len(spec_m)), rp)
    elif model_m:
        worst = min(model_m, key=lambda m: (len(text_of(m["case"])) if "t=" in m["case"] else 10 ** 6, len(m["case"])))
        res.violation("correspondence broken: the real reader differs from coq/Meta (Consume.v / Tokens.v meta_grammar under Peg.Spec) on %r: impl `%s`, model `%s`; "
                      "no spelling was read back wrongly" % (text_of(worst["case"]) or worst["case"][:200], worst["impl"][:300], worst["expected"][:300]),
                      {"theorem_or_correspondence": "C07 correspondence: impl vs extracted PV.Meta.Consume / PV.Meta.Tokens.meta_grammar", "case": worst["case"],
                       "text": text_of(worst["case"]), "impl": worst["impl"], "model": worst["expected"], "searched": stats, "legend": LEGEND},
                      no_failing_input=True)
    for m in other_m[:1]:
        res.violation("harness failure (%s): %s" % (m["kind"], m["impl"][:300]), {"theorem_or_correspondence": "C07 correspondence (run)", "case": m["case"], "log": m["expected"]},
                      no_failing_input=True)
    # the refuted freedoms: replayed on the real code in every run (witness command + generated members of the class)
    registered = {f.get("class"): f for f in known_findings("C07")}
    reproduced = {}
    for cls, (what, coqthm) in CLASSES.items():
        ks = [k for k in known if k["class"] == cls]
        if not ks:
            continue
        w = min(ks, key=lambda k: len(text_of(k["case"])))
        reproduced[cls] = len(ks)
        entry = registered.get(cls) or registered.get("C07-" + cls)
        if entry and entry.get("status") == "known":
            res.known_finding("class=C07-%s witness=%r impl=%s expected=%s (%d spellings of this class this run; Coq: %s)"
                              % (cls, text_of(w["case"]), w["impl"][:100], w["expected"][:100], len(ks), coqthm))
        else:
            res.violation("the grammar reader does not reconstruct the grammar that was written: %s. Witness %r is read as `%s`, written was `%s` "
                          "(%d spellings of this class this run; refuted for the shipped code in Coq by %s; repaired by fixes/C07-%s*.patch%s)"
                          % (what, text_of(w["case"]), w["impl"][:200], w["expected"][:200], len(ks), coqthm, "1" if cls == "insens-gap" else "2",
                             "; known_findings.json records it as fixed but it still reproduces" if entry else ""),
                          {"theorem_or_correspondence": "C07 oracle on a legal spelling of class " + cls + " (" + coqthm + ")", "case": w["case"], "text": text_of(w["case"]),
                           "impl": w["impl"], "spec": w["expected"], "class": cls, "spellings_in_class": len(ks), "legend": LEGEND,
                           "suggested_fix": "fixes/C07-1-insensitive-string-inner.patch" if cls == "insens-gap" else "fixes/C07-2-nested-leading-choice-operator.patch"})
    if not thm["ok"]:
        res.violation("proof obligation no longer checks: " + "; ".join(thm["problems"]),
                      {"theorem_or_correspondence": "C07 theorems (coq/props/C07.v)", "log": thm["log"][-3000:]}, no_failing_input=not spec_m)
    res.coverage.update({
        "evaluations": stats.get("evaluations", 0),
        "distinct_nontrivial": stats.get("distinct_nontrivial", 0),
        "rule": "generated rule sets (1-4 rules, all five modifiers, expression depth <= 4 over every operator, strings over 42 characters that need every escape kind, "
                "counts at the u32 limits, PEEK indices at the i32 limits, identifiers around PUSH/PEEK, tags and PUSH_LITERAL with grammar-extras) x 5-8 spellings each "
                "(minimal parentheses by the derived precedence; 0-40% redundant parentheses; no / single / random blanks, newlines, // and nested /* */ comments with "
                "hostile contents (runs of `*` and `/` in the body, right after the opener and right before the terminator, `* /`, `/ *`, nested comments, newlines, quotes; "
                "legality decided by a reference scanner of Text.v `gap`), a // comment that ends the text without a newline, /// and //! lines; raw / named / \\xHH / \\u{2-6 digits} escape forms in random hex case; leading zeros; leading `|` of a rule), "
                "read by the real parse + consume_rules and compared with the generated AST; plus " + bounds + ". non-trivial = read back correctly AND the rule set nests "
                "a choice with a sequence, two operators of one level, or a prefix with a postfix operator; distinct by text within each generator process",
        "exhaustive": True,
        "exhaustive_bound": bounds + " (the theorems are unbounded)",
        "samples": ["a = { b | c ~ d }", "a = { !b* }", "a = { b ~ (c ~ d) }", "a = { ^ \"b\" }  (known class)", "a = { (| b | c) }  (known class)"],
        "histogram": {k: stats.get(k, 0) for k in ("ok", "invalid", "known_generated", "contract", "redundant_parens", "with_comments", "with_escapes", "with_docs",
                                                  "leading_zeros", "rule_bars", "mixed_levels", "same_level_nests", "prefix_postfix",
                                                  "hostile_comments", "star_run_before_close", "line_comment_at_end_of_text", "spec_forest_checks",
                                                  "invalid_checked_on_model", "known_class")},
        "runner_cases": stats.get("cases", 0),
        "mismatches": len(mism) + len(contracts),
        "known_witnesses_reproduced": reproduced,
        "legend": LEGEND,
    })
    res.assumptions = ["consume_rules also runs validator::validate_ast; rule sets it rejects (`Invalid`, counted) are outside C07 (C06); for them the extracted model of "
                       "consume_rules_with_spans is checked against the generated AST instead",
                       "the token forest of the real parse is read through Pairs (rule, span, children); node tags do not occur in grammar.pest",
                       "both feature sets: default and grammar-extras (tags, PUSH_LITERAL)"]
