"""C13 - operator-precedence parsers (PrattParser, ConstPrattParser, PrecClimber) build the precedence-correct tree."""
from common import *

META = {
    "property_id": "C13",
    "level": "proof",
    "technique": "Coq proof: simulation of the Pratt recursion (expr/nud/led/lbp with fuel) and of PrecClimber::climb_rec by the two-stack "
                 "shunting-yard specification + totality/yield by induction on fuel; table constructors related by order-preserving relabelling; "
                 "models tied to pratt_parser.rs / prec_climber.rs by exhaustive + random differential runs of the extracted models against the real API",
    "text": "Theorem C13_pratt_precedence_correct (coq/props/C13.v, closed under the global context), the full unbounded statement: for every table with "
            "levels >= 1 and every token list in prefix* prim postfix* (infix prefix* prim postfix*)* the model of PrattParser::parse returns without panic, "
            "consumes every token, the in-order yield of its tree is the token list, and the tree equals that of the independent shunting-yard specification "
            "(left power p; right power p for left-assoc infix, just below p for right-assoc/prefix); the model of PrecClimber::climb gives the same tree for "
            "infix-only tables with one associativity per level; PrattParser::op and ConstPrattParser::new_const(pratt_precedence![..]) of one declaration "
            "give the same affixes with levels differing by PREC_STEP and the same parse; PrecClimber::new and PrattParser::op of one duplicate-free infix "
            "declaration give the same parse. Theorem C13_model_fuel_adequate: the model never reports OutOfFuel. Theorem C13_every_constructor (levels unbounded): "
            "PrecClimber::new_const on any slice (any order, any precedence values, one associativity per value) builds the shunting-yard tree of the table "
            "the slice denotes and, without a repeated rule, the same tree in every order of its entries; prec_climber![..] builds the vector PrecClimber::new "
            "builds; ConstPrattParser::new_const on any accepted array has levels >= 1. Every run drives every public constructor - PrattParser::new().op(..), "
            "ConstPrattParser::new_const via pratt_precedence! (31 small shapes, one operator per level for 6..64/100/260/300 levels, two per level for 3..40 levels) "
            "and on runtime arrays of 1..520 entries, PrecClimber::new, PrecClimber::new_const (declaration order, reversed, arbitrary slices with arbitrary u32 "
            "precedences) and prec_climber! (127 tables: operators in every order relative to the rule enum, up to 46 levels) - through PairsBuilder pairs on all "
            "tables with <= 3 (thorough 4) operators x all short token strings + all longer well-formed ones + random larger tables/sequences + random tables with "
            "1..300 levels and rule numbers spread over the u8 range (a few beyond) whose sequences put the tightest levels next to the loosest, and compares trees "
            "and panic kinds with the extracted models (correspondence) and with the extracted specification (property oracle). When only the correspondence or a "
            "proof breaks, an escalated search (variants of the differing tables x many sequences) looks for a failing input of the property.",
    "note": "Trusted: Coq kernel; extraction (ExtrOcamlBasic only); harness/runner; BTreeMap, Peekable and the closures modelled by their documented meaning "
            "(association list with shadowing, list head/tail, free tree constructors). Not modelled: u32 overflow of `prec += PREC_STEP` (> 4e8 levels), "
            "native stack depth, the write-only has_* flags. Levels are unobservable through the API, so a change of PREC_STEP to any value >= 1 is (correctly) not reported.",
    "design_ref": "DESIGN.md section 3, C13",
    "coq_targets": ["props/C13.vo", "Extract/PrattExtract.vo"],
    "bins": ["c13"],
}

LEGEND = ("case T;<maps>;<decl>;<tokens>: maps = map_prefix/map_postfix/map_infix supplied (0/1); decl = levels joined by ',' (later binds tighter), "
          "op = <rule letter><p|q|l|r> (prefix, postfix, infix left, infix right); tokens = rule letters, a letter not in the table is a primary. "
          "case W;<maps>;<decl>;<tokens>: the same with numeric rules (u16): ops of a level joined by '.', tokens = numbers joined by '.'. "
          "Observation P=PrattParser::new().op(..), C=ConstPrattParser::new_const(pratt_precedence![..]), N=ConstPrattParser::new_const on a runtime array "
          "(more than 40 entries: padded to the next of 48/64/100/130/260/300/520 by repeating the last entry on its level), K=PrecClimber::new on the infix "
          "operators, S=PrecClimber::new_const on the slice `new` builds, R=new_const on that slice reversed, M=prec_climber![..] (harness enum a..z A..Z); "
          "'-' = not driven for this table. Trees are in-order S-expressions of <letter><token index> (W: <number>@<token index>), !KIND is a panic. "
          "case N;<maps>;<entries>;<tokens>: direct new_const, entry = chain + '+'/'-' flag. case L;<entries>;<tokens>: PrecClimber::new_const on exactly "
          "that slice, entry = <rule number><l|r><u32 precedence>.")


def pest_only_build(timeout=900):
    """Fallback when the shared harness crate does not build (a broken PrattParser also breaks pest_meta's own grammar
    parser, hence the derive in pest_grammars): a private crate under /tmp that depends on `pest` alone, same sources."""
    tag = hashlib.sha1(REPO.encode()).hexdigest()[:8]
    d = "/tmp/pvharness-c13-%s" % tag
    tdir = "/tmp/pvtarget-c13-%s" % tag
    os.makedirs(os.path.join(d, "src", "bin"), exist_ok=True)
    main_toml = open(os.path.join(HARNESS, "Cargo.toml")).read()
    profile = main_toml[main_toml.index("[profile.release]"):] if "[profile.release]" in main_toml else ""
    toml = ('[package]\nname = "pvharness"\nversion = "0.0.0"\nedition = "2021"\npublish = false\n\n[workspace]\n\n'
            '[dependencies]\npest = { path = "%s/pest", features = ["const_prec_climber"] }\n\n%s' % (REPO.rstrip("/"), profile))
    write_if_changed(os.path.join(d, "Cargo.toml"), toml)
    # the helpers of src/lib.rs without the sub-modules other properties added (they need the other pest crates)
    lib = re.sub(r"(?m)^(\s*#\[cfg[^\n]*\]\s*\n)?\s*(pub\s+)?mod\s+\w+\s*;.*$", "", open(os.path.join(HARNESS, "src", "lib.rs")).read())
    write_if_changed(os.path.join(d, "src", "lib.rs"), lib)
    sh("cp %s/src/bin/c13.rs %s/src/bin/c13.rs; rm -rf %s/.cargo; cp -r %s/.cargo %s/.cargo; cp %s/Cargo.lock %s/Cargo.lock"
       % (HARNESS, d, d, HARNESS, d, REPO, d))
    rc, out = sh("cargo build --release --offline --bin c13 2>&1", cwd=d, timeout=timeout,
                 env={"CARGO_TARGET_DIR": tdir, "RUSTFLAGS": "--cfg %s -Awarnings" % HOOK_CFG})
    return rc, out, os.path.join(tdir, "release")


def run_cases(hbin, runner, cmds, timeout=3600):
    outs = run_pipeline(["%s %s | %s" % (hbin, c, runner) for c in cmds], timeout=timeout)
    mism, stats = [], {}
    for rc, out in outs:
        m, s, other = parse_runner_output(out)
        hung = any(x["impl"].startswith("HANG") for x in m)
        if (rc != 0 or "mismatches" not in s) and not hung:
            mism.append({"kind": "harness", "case": "", "impl": "pipeline failed rc=%s" % rc, "expected": out[-500:]})
        mism += m
        for k, v in s.items():
            stats[k] = stats.get(k, 0) + v if isinstance(v, int) else v
    return mism, stats


def one(hbin, runner, case):
    """Run one case through harness and runner; returns (mismatch list, impl observation)."""
    rc, out = sh("%s one '%s'" % (hbin, case), timeout=60)
    impl = ""
    for line in out.split("\n"):
        if "\t" in line and not line.startswith("#"):
            impl = line.split("\t", 1)[1]
    rc2, out2 = sh(runner, timeout=60, stdin=out.encode())
    m, _, _ = parse_runner_output(out2 if rc == 0 else out + "\n" + out2)   # a hang is reported by the harness itself
    return m, impl


def disagrees(hbin, runner, case, kind):
    m, _ = one(hbin, runner, case)
    return any(x["kind"] == kind for x in m), m


def split_case(case):
    """T/W case -> (head, maps, levels as lists of operator strings, tokens as a list) or None."""
    f = case.split(";")
    if len(f) != 4 or f[0] not in ("T", "W"):
        return None
    head, maps, decl, toks = f
    if head == "T":
        levels = [[l[j:j + 2] for j in range(0, len(l), 2)] for l in decl.split(",") if l]
        return head, maps, levels, list(toks)
    return head, maps, [[o for o in l.split(".") if o] for l in decl.split(",") if l], [t for t in toks.split(".") if t]


def join_case(head, maps, levels, toks):
    if head == "T":
        return ";".join([head, maps, ",".join("".join(l) for l in levels), "".join(toks)])
    return ";".join([head, maps, ",".join(".".join(l) for l in levels), ".".join(toks)])


def case_size(case):
    """order in which differing cases are preferred as the one to report: those the shrinker understands first, then by size"""
    c = split_case(case)
    return (0, len(c[3]), sum(len(l) for l in c[2]), len(case)) if c else (1, len(case.split(";")[-1]), 0, len(case))


def minimise(hbin, runner, case, kind):
    """Greedy shrinking of a T/W case: drop runs of tokens, then runs of levels and single operators of the declaration
    (run lengths halving down to 1), while the disagreement persists."""
    c = split_case(case)
    if not c:
        return case
    head, maps, levels, toks = c
    deadline = time.time() + 100      # a hanging parser costs 5 s per probe (watchdog): bound the shrinking

    def ok(lv, t):
        if time.time() > deadline or not lv:
            return False
        return disagrees(hbin, runner, join_case(head, maps, lv, t), kind)[0]

    def shrink_list(xs, test):
        """remove runs of elements of xs while test(remaining) holds"""
        n = max(1, len(xs) // 2)
        while n >= 1:
            i = 0
            while i < len(xs):
                cand = xs[:i] + xs[i + n:]
                if len(cand) < len(xs) and test(cand):
                    xs = cand
                else:
                    i += n
            n //= 2
        return xs

    for _ in range(4):
        before = (len(toks), sum(len(l) for l in levels))
        toks = shrink_list(toks, lambda t: ok(levels, t))
        levels = shrink_list(levels, lambda lv: ok(lv, toks))
        li = 0
        while li < len(levels):          # single operators of the levels that remain
            oi = 0
            while oi < len(levels[li]) and len(levels[li]) > 1:
                cand = [list(l) for l in levels]
                del cand[li][oi]
                if ok(cand, toks):
                    levels = cand
                else:
                    oi += 1
            li += 1
        if (len(toks), sum(len(l) for l in levels)) == before:
            break
    return join_case(head, maps, levels, toks)


def run(tier, seed, replay=None):
    res = Result("C13", tier, seed, "proof")
    thm = check_theorems("C13")
    proof_coverage(res, thm, "make -C coq props/C13.vo (coqc 8.16.1, full .vo build) + Print Assumptions" +
                   ("; coqchk -o PV.props.C13" if tier != "quick" else ""), BASE_TRUST + [
        "models written by hand: coq/Pratt/Model.v (pest/src/pratt_parser.rs), coq/Pratt/Climber.v (pest/src/prec_climber.rs incl. new_const and prec_climber!); "
        "BTreeMap = association list with shadowing, Peekable = list, closures = free tree constructors; u32 overflow of prec += PREC_STEP not modelled",
        "specification written by hand: coq/Pratt/Shunt.v (two-stack shunting-yard with the binding powers of the property text)",
    ])
    rc, out = coq_make(["Extract/PrattExtract.vo"])
    if rc != 0:
        thm["ok"] = False
        thm["problems"].append("extraction build failed")
    if tier != "quick" and thm["ok"]:
        crc, cout = coqchk("C13", timeout=1200)
        res.coverage["coqchk"] = "ok" if crc == 0 else "FAILED rc=%d" % crc
        if crc != 0:
            thm["ok"] = False
            thm["problems"].append("coqchk failed: " + cout[-800:])
    brc, bout, bdir = harness_build(["c13"])
    build_note = None
    if brc != 0:
        frc, fout, fdir = pest_only_build()
        if frc == 0:
            build_note = "shared harness crate failed to build (%s); c13 rebuilt against the `pest` crate alone" % (
                [l for l in bout.split("\n") if l.startswith("error")] or ["?"])[0][:200]
            log("  note: " + build_note)
            brc, bdir = 0, fdir
    if brc != 0:
        res.violation("harness does not build against the repository (correspondence C13 cannot run)",
                      {"theorem_or_correspondence": "C13 correspondence (build)", "log": bout[-3000:]}, no_failing_input=True)
        return res.finish()
    orc, oout, runner = ocaml_build("c13_runner", ["pratt_model"])
    if orc != 0:
        res.violation("OCaml runner does not build", {"theorem_or_correspondence": "C13 extraction", "log": oout[-3000:]}, no_failing_input=True)
        return res.finish()
    hbin = os.path.join(bdir, "c13")

    if replay:
        case = json.load(open(replay)).get("case", "")
        m, impl = one(hbin, runner, case)
        log("replay %s: impl %s" % (case, impl))
        for x in m:
            log("  %s impl=%s expected=%s" % (x["kind"], x["impl"][:300], x["expected"][:300]))
        if any(x["kind"] == "spec" for x in m):
            res.violation("replayed case still violates the shunting-yard specification", {"case": case, "impl": impl, "legend": LEGEND})
        elif m:
            res.violation("replayed case still differs from the model of the code", {"case": case, "impl": impl, "legend": LEGEND}, no_failing_input=True)
        return res.finish()

    corpus = []
    cpath = os.path.join(ROOT, "corpus", "C13.txt")
    if os.path.exists(cpath):
        corpus = [l.strip() for l in open(cpath) if l.strip() and not l.startswith("#")]
    cmds = ["one '%s'" % c for c in corpus]
    if tier == "quick":
        nops, len_all, len_wf, shards, nrand, rcount = 3, 5, 8, 8, 8, 15000
        big = (4, 3, 7)          # tables with exactly 4 operators: shorter strings
        wide_tables, wide_per, fam = 250, 6, (4, 7, 150)
    else:
        nops, len_all, len_wf, shards, nrand, rcount = 4, 5, 9, 16, 16, 100000
        big = (5, 3, 7)          # tables with exactly 5 operators (16 splits x 1024 affix choices)
        wide_tables, wide_per, fam = 3000, 8, (5, 8, 2000)
    cmds += ["exh %d %d %d %d %d" % (nops, len_all, len_wf, i, shards) for i in range(shards)]
    cmds += ["exh %d %d %d %d %d %d" % (big[0], big[1], big[2], i, shards, big[0]) for i in range(shards)]
    cmds += ["random %d %d %d" % (rcount, seed * 1000 + i, len_wf + 1) for i in range(nrand)]
    cmds += ["wide %d %d %d" % (wide_tables, seed * 1000 + 500 + i, wide_per) for i in range(nrand)]
    cmds += ["macrofam %d %d %d %d" % (fam[0], fam[1], fam[2], seed)]
    mism, stats = run_cases(hbin, runner, cmds, timeout=150 if tier == "quick" else 2400)

    spec_m = [m for m in mism if m["kind"] == "spec"]
    model_m = [m for m in mism if m["kind"] == "model"]
    other_m = [m for m in mism if m["kind"] not in ("spec", "model")]

    # Escalated search, only after something broke without a failing input of the property: the correspondence (the real
    # parsers differ from the model somewhere) or a proof obligation.  Start from the cases that differ: variants of their
    # tables (mirrored rule numbers, reversed levels, every pair of operators alone, extended to 30..300 levels) x all short
    # well-formed sequences + many random ones; after a broken proof also a larger budget of the ordinary generators.
    escalated = None
    if not spec_m and (model_m or not thm["ok"]):
        t_esc = time.time()
        starts, seen_decl = [], set()
        for m in sorted(model_m, key=lambda m: case_size(m["case"])):
            c = split_case(m["case"])
            if not c:
                continue
            key = (c[0], tuple(tuple(l) for l in c[2]))
            if key not in seen_decl:
                seen_decl.add(key)
                starts.append(join_case(c[0], "111", c[2], c[3]))
            if len(starts) >= 8:
                break
        ecmds = ["around '%s' 400 %d" % (c, seed * 1000 + 900 + i) for i, c in enumerate(starts)]
        if not thm["ok"] or not starts:
            ecmds += ["random %d %d %d" % (4 * rcount, seed * 1000 + 100 + i, 3) for i in range(nrand)]
            ecmds += ["wide %d %d %d" % (4 * wide_tables, seed * 1000 + 700 + i, wide_per + 4) for i in range(nrand)]
        emism, estats = run_cases(hbin, runner, ecmds, timeout=240 if tier == "quick" else 1800)
        spec_m = [m for m in emism if m["kind"] == "spec"]
        other_m += [m for m in emism if m["kind"] not in ("spec", "model")]
        escalated = {"started_from": starts, "commands": len(ecmds), "evaluations": estats.get("evaluations", 0),
                     "well_formed": estats.get("well_formed", 0), "well_formed_on_26plus_levels": estats.get("well_formed_on_26plus_levels", 0),
                     "spec_mismatches": len(spec_m), "model_mismatches": len([m for m in emism if m["kind"] == "model"]),
                     "wall_s": round(time.time() - t_esc, 1),
                     "what": "for each differing table: itself, rule numbers mirrored, levels reversed, every pair of its operators alone (both level orders), "
                             "extended by fresh one-operator levels to 30/64/130/260/300 levels; each x every well-formed sequence of length <= 7 (tables with <= 4 "
                             "operators) and 400 random well-formed sequences concentrated on few operators; every constructor runs on each"
                             + ("; plus 4x the random and many-level budgets with other seeds" if (not thm["ok"] or not starts) else "")}
    if spec_m:
        worst = min(spec_m, key=lambda m: case_size(m["case"]))
        small = minimise(hbin, runner, worst["case"], "spec")
        _, detail = disagrees(hbin, runner, small, "spec")
        d = detail[0] if detail else worst
        found_by = "escalated search around " + ", ".join(escalated["started_from"][:3]) if escalated else "generators"
        res.violation("operator-precedence parser builds a tree that differs from the shunting-yard specification on %s: impl %s, %s"
                      % (small, d["impl"], d["expected"]),
                      {"theorem_or_correspondence": "C13 oracle: real PrattParser / ConstPrattParser / PrecClimber (every constructor) vs extracted Pratt.Shunt",
                       "case": small, "impl": d["impl"], "spec": d["expected"], "minimised_from": worst["case"],
                       "spec_mismatches_seen": len(spec_m), "found_by": found_by, "legend": LEGEND})
    elif model_m:
        worst = min(model_m, key=lambda m: case_size(m["case"]))
        small = minimise(hbin, runner, worst["case"], "model")
        _, detail = disagrees(hbin, runner, small, "model")
        d = detail[0] if detail else worst
        res.violation("correspondence broken: the real parsers differ from coq/Pratt/Model.v / Climber.v on %s (impl %s, model %s), "
                      "but on no well-formed sequence did a tree differ from the specification" % (small, d["impl"], d["expected"]),
                      {"theorem_or_correspondence": "C13 correspondence: impl vs extracted Pratt.Model / Pratt.Climber",
                       "case": small, "impl": d["impl"], "model": d["expected"], "minimised_from": worst["case"],
                       "searched": stats, "escalated_search": escalated, "legend": LEGEND},
                      no_failing_input=True)
    for m in other_m[:1]:
        res.violation("harness failure: " + m["impl"], {"theorem_or_correspondence": "C13 correspondence (run)", "log": m["expected"]}, no_failing_input=True)
    if not thm["ok"]:
        res.violation("proof obligation no longer checks: " + "; ".join(thm["problems"]),
                      {"theorem_or_correspondence": "C13_pratt_precedence_correct / C13_every_constructor (coq/props/C13.v)", "log": thm["log"][-3000:],
                       "escalated_search": escalated},
                      no_failing_input=not spec_m)

    res.coverage.update({
        "evaluations": stats.get("evaluations", 0),
        "distinct_nontrivial": stats.get("distinct_nontrivial", 0),
        "rule": "every table with <= %d operators (every split into levels, every choice of prefix/postfix/infix-left/infix-right per operator) x every token "
                "string of length <= %d over its operators and one primary (ill-formed ones included: panic kinds are compared), x every well-formed string of "
                "length %d..%d; every table with exactly %d operators x every string of length <= %d and every well-formed string of length <= %d; "
                "tables with <= 2 operators also with every subset of the three closures missing; plus random tables (<= 6 levels x <= 3 operators, "
                "30%% infix-only, 4%% with a rule declared twice) x mostly well-formed sequences of length %d..40 (15%% with one token replaced/deleted/inserted), "
                "5%% direct new_const calls with arbitrary level flags / chained operators, a third with the letters assigned in another order than the "
                "declaration's; plus %d random tables with 1..300 levels (30%% 1-12, 15%% 13-25, 30%% 26-40, 14%% 41-64, 11%% of 65/100/129/130/255/256/257/260/300; "
                "1-3 operators per level; rule numbers spread over 0..255, 0..1023 for the largest, a few of 0/255/256/1000/32768/65535; listed ascending / "
                "descending / in arbitrary order) x %d sequences of length 3..40 each, three quarters of them concentrated on the operators of a few levels that "
                "include the loosest and the tightest; one in eight of these tables is instead a direct PrecClimber::new_const slice with strictly increasing "
                "arbitrary u32 precedences (0 and u32::MAX included) in declaration / reverse / sorted / shuffled order; plus the prec_climber! family (every "
                "infix table with <= 3 operators and one associativity per level x every assignment of a,b,c to its operators, five tables with 26..46 levels) x "
                "every string of length <= %d, every well-formed one of length <= %d, %d random sequences for the large ones. Each T/W case runs PrattParser, "
                "ConstPrattParser via pratt_precedence!, ConstPrattParser::new_const on an array, PrecClimber::new, PrecClimber::new_const on the same slice and on "
                "the reversed slice, and prec_climber! where the table is in the family. non-trivial = well-formed, >= 2 operator tokens, real PrattParser returned a "
                "tree; distinct by case string (random cases are longer than every exhaustive case)"
                % (nops, len_all, len_all + 1, len_wf, big[0], big[1], big[2], len_wf + 1, wide_tables * nrand, wide_per, fam[0], fam[1], fam[2]),
        "exhaustive": True,
        "exhaustive_bound": "<= %d operators per table, token strings <= %d (all) / <= %d (well-formed); %d operators: <= %d / <= %d; the theorem itself is unbounded"
                            % (nops, len_all, len_wf, big[0], big[1], big[2]),
        "samples": ["T;111;ap,blcr,dq;axbxcxbxd", "T;111;ap,bl;axbx", "T;111;alcl,br,dp,eq;dxaxbxbxcdxe", "T;110;al;xax", "N;111;al+,br-,cp+;cxaxbx",
                    "T;111;cl,albl;xaxcxbx", "W;111;12l,200r.7p,65535q;7.5.12.5.200.5.65535", "L;12l5,7r4000000000;1.12.1.7.1"] + corpus[:3],
        "histogram": {k: stats.get(k, 0) for k in ("well_formed", "pratt_panics", "infix_only_well_formed", "const_via_macro", "climber_via_macro",
                                                   "well_formed_on_26plus_levels", "cases_65plus_levels", "cases_257plus_levels")},
        "escalated_search": escalated if escalated else "not run (nothing broke)",
        "runner_cases": stats.get("cases", 0),
        "mismatches": len(mism),
        "legend": LEGEND,
    })
    if build_note:
        res.coverage["build_note"] = build_note
    res.assumptions = ["rule type u16 (enum Rule for prec_climber!), tokens built with pest::iterators::PairsBuilder (one byte per token); the theorem is parametric in the token payload",
                       "L cases: the u32 precedences are replaced by their ranks before the extracted model / specification run (both only compare precedences)",
                       "levels are not observable through the public API: only trees and panic kinds are compared",
                       "harness built with overflow-checks (prec - 1 at level 0 = panic in the model; unreachable for declared tables)"]
    return res.finish()
