"""C13 - operator-precedence parsers (PrattParser, ConstPrattParser, PrecClimber) build the precedence-correct tree."""
from common import *

META = {
    "property_id": "C13",
    "level": "proof",
    "technique": "Coq proof: simulation of the Pratt recursion (expr/nud/led/lbp with fuel) and of PrecClimber::climb_rec by the two-stack "
                 "shunting-yard specification + totality/yield by induction on fuel; table constructors related by order-preserving relabelling; "
                 "models tied to pratt_parser.rs / prec_climber.rs by exhaustive + random differential runs of the extracted models against the real API",
    "text": "Theorem C13_pratt_precedence_correct (coq/props/C13.v, closed under the global context), the full unbounded statement: for every table with "
            "levels >= 1 and every token list in prefix* prim postfix* (infix prefix* prim postfix*)* the model of PrattParser::parse returns without panic, "
            "consumes every token, the in-order yield of its tree is the token list, and the tree equals that of the independent shunting-yard specification "
            "(left power p; right power p for left-assoc infix, just below p for right-assoc/prefix); the model of PrecClimber::climb gives the same tree for "
            "infix-only tables with one associativity per level; PrattParser::op and ConstPrattParser::new_const(pratt_precedence![..]) of one declaration "
            "give the same affixes with levels differing by PREC_STEP and the same parse; PrecClimber::new and PrattParser::op of one duplicate-free infix "
            "declaration give the same parse. Theorem C13_model_fuel_adequate: the model never reports OutOfFuel. Every run drives the real PrattParser, "
            "ConstPrattParser (pratt_precedence! on 31 fixed shapes, new_const on runtime arrays) and PrecClimber through PairsBuilder pairs on all tables "
            "with <= 3 (thorough 4) operators x all short token strings + all longer well-formed ones + random larger tables/sequences, and compares trees "
            "and panic kinds with the extracted models (correspondence) and with the extracted specification (property oracle).",
    "note": "Trusted: Coq kernel; extraction (ExtrOcamlBasic only); harness/runner; BTreeMap, Peekable and the closures modelled by their documented meaning "
            "(association list with shadowing, list head/tail, free tree constructors). Not modelled: u32 overflow of `prec += PREC_STEP` (> 4e8 levels), "
            "native stack depth, the write-only has_* flags. Levels are unobservable through the API, so a change of PREC_STEP to any value >= 1 is (correctly) not reported.",
    "design_ref": "DESIGN.md section 3, C13",
    "coq_targets": ["props/C13.vo", "Extract/PrattExtract.vo"],
    "bins": ["c13"],
}

LEGEND = ("case T;<maps>;<decl>;<tokens>: maps = map_prefix/map_postfix/map_infix supplied (0/1); decl = levels joined by ',' (later binds tighter), "
          "op = <rule letter><p|q|l|r> (prefix, postfix, infix left, infix right); tokens = rule letters, a letter not in the table is a primary. "
          "Observation P=PrattParser, C=ConstPrattParser via pratt_precedence!, N=ConstPrattParser::new_const on an array, K=PrecClimber on the infix operators; "
          "trees are in-order S-expressions of <letter><token index>, !KIND is a panic. case N;<maps>;<entries>;<tokens>: direct new_const, entry = chain + '+'/'-' flag.")


def pest_only_build(timeout=900):
    """Fallback when the shared harness crate does not build (a broken PrattParser also breaks pest_meta's own grammar
    parser, hence the derive in pest_grammars): a private crate under /tmp that depends on `pest` alone, same sources."""
    tag = hashlib.sha1(REPO.encode()).hexdigest()[:8]
    d = "/tmp/pvharness-c13-%s" % tag
    tdir = "/tmp/pvtarget-c13-%s" % tag
    os.makedirs(os.path.join(d, "src", "bin"), exist_ok=True)
    main_toml = open(os.path.join(HARNESS, "Cargo.toml")).read()
    profile = main_toml[main_toml.index("[profile.release]"):] if "[profile.release]" in main_toml else ""
    toml = ('[package]\nname = "pvharness"\nversion = "0.0.0"\nedition = "2021"\npublish = false\n\n[workspace]\n\n'
            '[dependencies]\npest = { path = "%s/pest" }\n\n%s' % (REPO.rstrip("/"), profile))
    write_if_changed(os.path.join(d, "Cargo.toml"), toml)
    # the helpers of src/lib.rs without the sub-modules other properties added (they need the other pest crates)
    lib = re.sub(r"(?m)^\s*(pub\s+)?mod\s+\w+\s*;.*$", "", open(os.path.join(HARNESS, "src", "lib.rs")).read())
    write_if_changed(os.path.join(d, "src", "lib.rs"), lib)
    sh("cp %s/src/bin/c13.rs %s/src/bin/c13.rs; rm -rf %s/.cargo; cp -r %s/.cargo %s/.cargo; cp %s/Cargo.lock %s/Cargo.lock"
       % (HARNESS, d, d, HARNESS, d, REPO, d))
    rc, out = sh("cargo build --release --offline --bin c13 2>&1", cwd=d, timeout=timeout,
                 env={"CARGO_TARGET_DIR": tdir, "RUSTFLAGS": "--cfg %s -Awarnings" % HOOK_CFG})
    return rc, out, os.path.join(tdir, "release")


def run_cases(hbin, runner, cmds, timeout=3600):
    outs = run_pipeline(["%s %s | %s" % (hbin, c, runner) for c in cmds], timeout=timeout)
    mism, stats = [], {}
    for rc, out in outs:
        m, s, other = parse_runner_output(out)
        hung = any(x["impl"].startswith("HANG") for x in m)
        if (rc != 0 or "mismatches" not in s) and not hung:
            mism.append({"kind": "harness", "case": "", "impl": "pipeline failed rc=%s" % rc, "expected": out[-500:]})
        mism += m
        for k, v in s.items():
            stats[k] = stats.get(k, 0) + v if isinstance(v, int) else v
    return mism, stats


def one(hbin, runner, case):
    """Run one case through harness and runner; returns (mismatch list, impl observation)."""
    rc, out = sh("%s one '%s'" % (hbin, case), timeout=60)
    impl = ""
    for line in out.split("\n"):
        if "\t" in line and not line.startswith("#"):
            impl = line.split("\t", 1)[1]
    rc2, out2 = sh("%s one '%s' | %s" % (hbin, case, runner), timeout=60)
    m, _, _ = parse_runner_output(out2)
    return m, impl


def disagrees(hbin, runner, case, kind):
    m, _ = one(hbin, runner, case)
    return any(x["kind"] == kind for x in m), m


def minimise(hbin, runner, case, kind):
    """Greedy shrinking of a T/N case: drop tokens, then drop operators of the declaration, while the disagreement persists."""
    f = case.split(";")
    if len(f) != 4:
        return case
    head, maps, decl, toks = f

    deadline = time.time() + 100      # a hanging parser costs 5 s per probe (watchdog): bound the shrinking

    def ok(d, t):
        if time.time() > deadline:
            return False
        return bool(d) and disagrees(hbin, runner, ";".join([head, maps, d, t]), kind)[0]

    changed = True
    rounds = 0
    while changed and rounds < 6:
        changed = False
        rounds += 1
        i = 0
        while i < len(toks):
            cand = toks[:i] + toks[i + 1:]
            if ok(decl, cand):
                toks, changed = cand, True
            else:
                i += 1
        # pairs of adjacent tokens (operator + operand)
        i = 0
        while i + 1 < len(toks):
            cand = toks[:i] + toks[i + 2:]
            if ok(decl, cand):
                toks, changed = cand, True
            else:
                i += 1
        if head == "T":
            levels = [[l[j:j + 2] for j in range(0, len(l), 2)] for l in decl.split(",") if l]
            li = 0
            while li < len(levels):
                oi = 0
                removed_level = False
                while oi < len(levels[li]):
                    cand_levels = [list(l) for l in levels]
                    del cand_levels[li][oi]
                    cand_levels = [l for l in cand_levels if l]
                    cand = ",".join("".join(l) for l in cand_levels)
                    if ok(cand, toks):
                        removed_level = len(cand_levels) < len(levels)
                        levels, decl, changed = cand_levels, cand, True
                        if removed_level:
                            break
                    else:
                        oi += 1
                if not removed_level:
                    li += 1
    return ";".join([head, maps, decl, toks])


def run(tier, seed, replay=None):
    res = Result("C13", tier, seed, "proof")
    thm = check_theorems("C13")
    proof_coverage(res, thm, "make -C coq props/C13.vo (coqc 8.16.1, full .vo build) + Print Assumptions" +
                   ("; coqchk -o PV.props.C13" if tier != "quick" else ""), BASE_TRUST + [
        "models written by hand: coq/Pratt/Model.v (pest/src/pratt_parser.rs), coq/Pratt/Climber.v (pest/src/prec_climber.rs); "
        "BTreeMap = association list with shadowing, Peekable = list, closures = free tree constructors; u32 overflow of prec += PREC_STEP not modelled",
        "specification written by hand: coq/Pratt/Shunt.v (two-stack shunting-yard with the binding powers of the property text)",
    ])
    rc, out = coq_make(["Extract/PrattExtract.vo"])
    if rc != 0:
        thm["ok"] = False
        thm["problems"].append("extraction build failed")
    if tier != "quick" and thm["ok"]:
        crc, cout = coqchk("C13", timeout=1200)
        res.coverage["coqchk"] = "ok" if crc == 0 else "FAILED rc=%d" % crc
        if crc != 0:
            thm["ok"] = False
            thm["problems"].append("coqchk failed: " + cout[-800:])
    brc, bout, bdir = harness_build(["c13"])
    build_note = None
    if brc != 0:
        frc, fout, fdir = pest_only_build()
        if frc == 0:
            build_note = "shared harness crate failed to build (%s); c13 rebuilt against the `pest` crate alone" % (
                [l for l in bout.split("\n") if l.startswith("error")] or ["?"])[0][:200]
            log("  note: " + build_note)
            brc, bdir = 0, fdir
    if brc != 0:
        res.violation("harness does not build against the repository (correspondence C13 cannot run)",
                      {"theorem_or_correspondence": "C13 correspondence (build)", "log": bout[-3000:]}, no_failing_input=True)
        return res.finish()
    orc, oout, runner = ocaml_build("c13_runner", ["pratt_model"])
    if orc != 0:
        res.violation("OCaml runner does not build", {"theorem_or_correspondence": "C13 extraction", "log": oout[-3000:]}, no_failing_input=True)
        return res.finish()
    hbin = os.path.join(bdir, "c13")

    if replay:
        case = json.load(open(replay)).get("case", "")
        m, impl = one(hbin, runner, case)
        log("replay %s: impl %s" % (case, impl))
        for x in m:
            log("  %s impl=%s expected=%s" % (x["kind"], x["impl"][:300], x["expected"][:300]))
        if any(x["kind"] == "spec" for x in m):
            res.violation("replayed case still violates the shunting-yard specification", {"case": case, "impl": impl, "legend": LEGEND})
        elif m:
            res.violation("replayed case still differs from the model of the code", {"case": case, "impl": impl, "legend": LEGEND}, no_failing_input=True)
        return res.finish()

    corpus = []
    cpath = os.path.join(ROOT, "corpus", "C13.txt")
    if os.path.exists(cpath):
        corpus = [l.strip() for l in open(cpath) if l.strip() and not l.startswith("#")]
    cmds = ["one '%s'" % c for c in corpus]
    if tier == "quick":
        nops, len_all, len_wf, shards, nrand, rcount = 3, 5, 8, 8, 8, 15000
        big = (4, 3, 7)          # tables with exactly 4 operators: shorter strings
    else:
        nops, len_all, len_wf, shards, nrand, rcount = 4, 5, 9, 16, 16, 100000
        big = (5, 3, 7)          # tables with exactly 5 operators (16 splits x 1024 affix choices)
    cmds += ["exh %d %d %d %d %d" % (nops, len_all, len_wf, i, shards) for i in range(shards)]
    cmds += ["exh %d %d %d %d %d %d" % (big[0], big[1], big[2], i, shards, big[0]) for i in range(shards)]
    cmds += ["random %d %d %d" % (rcount, seed * 1000 + i, len_wf + 1) for i in range(nrand)]
    mism, stats = run_cases(hbin, runner, cmds, timeout=150 if tier == "quick" else 2400)

    spec_m = [m for m in mism if m["kind"] == "spec"]
    model_m = [m for m in mism if m["kind"] == "model"]
    other_m = [m for m in mism if m["kind"] not in ("spec", "model")]
    if spec_m:
        worst = min(spec_m, key=lambda m: (len(m["case"].split(";")[-1]), len(m["case"])))
        small = minimise(hbin, runner, worst["case"], "spec")
        _, detail = disagrees(hbin, runner, small, "spec")
        d = detail[0] if detail else worst
        res.violation("operator-precedence parser builds a tree that differs from the shunting-yard specification on %s: impl %s, %s"
                      % (small, d["impl"], d["expected"]),
                      {"theorem_or_correspondence": "C13 oracle: real PrattParser / ConstPrattParser / PrecClimber vs extracted Pratt.Shunt",
                       "case": small, "impl": d["impl"], "spec": d["expected"], "minimised_from": worst["case"],
                       "spec_mismatches_seen": len(spec_m), "legend": LEGEND})
    elif model_m:
        worst = min(model_m, key=lambda m: (len(m["case"].split(";")[-1]), len(m["case"])))
        small = minimise(hbin, runner, worst["case"], "model")
        _, detail = disagrees(hbin, runner, small, "model")
        d = detail[0] if detail else worst
        res.violation("correspondence broken: the real parsers differ from coq/Pratt/Model.v / Climber.v on %s (impl %s, model %s), "
                      "but on no well-formed sequence did a tree differ from the specification" % (small, d["impl"], d["expected"]),
                      {"theorem_or_correspondence": "C13 correspondence: impl vs extracted Pratt.Model / Pratt.Climber",
                       "case": small, "impl": d["impl"], "model": d["expected"], "minimised_from": worst["case"],
                       "searched": stats, "legend": LEGEND},
                      no_failing_input=True)
    for m in other_m[:1]:
        res.violation("harness failure: " + m["impl"], {"theorem_or_correspondence": "C13 correspondence (run)", "log": m["expected"]}, no_failing_input=True)
    if not thm["ok"]:
        res.violation("proof obligation no longer checks: " + "; ".join(thm["problems"]),
                      {"theorem_or_correspondence": "C13_pratt_precedence_correct (coq/props/C13.v)", "log": thm["log"][-3000:]},
                      no_failing_input=not spec_m)

    res.coverage.update({
        "evaluations": stats.get("evaluations", 0),
        "distinct_nontrivial": stats.get("distinct_nontrivial", 0),
        "rule": "every table with <= %d operators (every split into levels, every choice of prefix/postfix/infix-left/infix-right per operator) x every token "
                "string of length <= %d over its operators and one primary (ill-formed ones included: panic kinds are compared), x every well-formed string of "
                "length %d..%d; every table with exactly %d operators x every string of length <= %d and every well-formed string of length <= %d; "
                "tables with <= 2 operators also with every subset of the three closures missing; plus random tables (<= 6 levels x <= 3 operators, "
                "30%% infix-only, 4%% with a rule declared twice) x mostly well-formed sequences of length %d..40 (15%% with one token replaced/deleted/inserted), "
                "5%% direct new_const calls with arbitrary level flags / chained operators. Each case runs PrattParser, ConstPrattParser via pratt_precedence! "
                "(31 shapes), ConstPrattParser::new_const on an array and PrecClimber. non-trivial = well-formed, >= 2 operator tokens, real PrattParser returned a "
                "tree; distinct by case string (random cases are longer than every exhaustive case)"
                % (nops, len_all, len_all + 1, len_wf, big[0], big[1], big[2], len_wf + 1),
        "exhaustive": True,
        "exhaustive_bound": "<= %d operators per table, token strings <= %d (all) / <= %d (well-formed); %d operators: <= %d / <= %d; the theorem itself is unbounded"
                            % (nops, len_all, len_wf, big[0], big[1], big[2]),
        "samples": ["T;111;ap,blcr,dq;axbxcxbxd", "T;111;ap,bl;axbx", "T;111;alcl,br,dp,eq;dxaxbxbxcdxe", "T;110;al;xax", "N;111;al+,br-,cp+;cxaxbx"] + corpus[:3],
        "histogram": {k: stats.get(k, 0) for k in ("well_formed", "pratt_panics", "infix_only_well_formed", "const_via_macro")},
        "runner_cases": stats.get("cases", 0),
        "mismatches": len(mism),
        "legend": LEGEND,
    })
    if build_note:
        res.coverage["build_note"] = build_note
    res.assumptions = ["rule type u8, tokens built with pest::iterators::PairsBuilder (one byte per token); the theorem is parametric in the token payload",
                       "levels are not observable through the public API: only trees and panic kinds are compared",
                       "harness built with overflow-checks (prec - 1 at level 0 = panic in the model; unreachable for declared tables)"]
    return res.finish()
