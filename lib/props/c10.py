"""C10 - line/column arithmetic and error rendering are correct for all text."""
from common import *

KNOWN_CLASSES = {
    "K1": {"witness": "P:2:a\\r",
           "what": "a lone CR before the offset is counted as a column by line_col but removed from the line shown by "
                   "Error::new_from_pos/new_from_span (error.rs: replace(&['\\r','\\n'], \"\")): input \"a\\r\", offset 2 renders `--> 1:3`, "
                   "text `a`, marker under column 2"},
    "K2": {"witness": "Q:0:2:\\nab\\ncd",
           "what": "Error::new_from_span emits the continued line raw (with its CR/LF) when the span starts or ends with CR/LF "
                   "(error.rs: `if visualize_ws { ll.map(str::to_owned) } else { ll.map(visualize_whitespace) }` looks inverted): input \"\\nab\\ncd\", "
                   "span 0..2 renders `2 | ab` followed by an empty row"},
    "K3": {"witness": "Q:0:3:ab\\ncd",
           "what": "a span that ends right after a LF with text following shows the FOLLOWING line as continued line, labelled with the previous "
                   "line's number: input \"ab\\ncd\", span 0..3 renders `1 | ab<LF symbol>` then `1 | cd`"},
    "K4": {"witness": "Q:2:2:ab",
           "what": "the empty span at the end of an input whose last line is not empty renders no line text and the marker at column 1: "
                   "input \"ab\", span 2..2 renders `--> 1:3`, `1 | `, `  | ^`"},
}

META = {
    "property_id": "C10",
    "level": "proof",
    "technique": "Coq proofs by induction over the string (scanning code refined to counting), hand-written Gallina model of position.rs / "
                 "line_index.rs / span.rs / error.rs with explicit Panic outcomes, tied to the code by exhaustive + random differential runs of the "
                 "extracted model and of the extracted specification on the real pest API (pest built with its default features and without memchr; short strings exhaustively, lines of 1000-5000 characters sampled)",
    "text": "Theorem C10_outside_known_classes (coq/props/C10.v, closed under the global context), for every string and every UTF-8 boundary "
            "offset / ordered boundary pair: Position::line_col = (1 + #LF before, 1 + #chars since the last LF); LineIndex/Pair::line_col = "
            "Position::line_col (whole-input and truncated index; C10_partition_point_precondition: the offsets are sorted); line_of / find_line_start / "
            "find_line_end = the maximal LF-delimited segment containing the offset; Span::new succeeds iff ordered boundary offsets; lines_span/lines = "
            "the consecutive lines meeting [start,end]; rendering an error from a position or a span NEVER panics (all inputs); outside the decidable known "
            "classes the position rendering equals the expected layout (line number, line text, marker under the column, tabs kept) and the span rendering "
            "shows line number, line text, marker column and the last line met, all rows sharing one gutter column (Spec.span_shows). The full statement C10_statement is refuted "
            "(C10_statement_refuted, C10_K1_refuted, C10_span_refuted: four witnesses K1..K4, replayed on the real code every run and printed as KNOWN-FINDING). "
            "The theorem is proved for all four models of Error::new_from_span (flags fix_continued / fix_eoi_line = with fixes/C10-1-continued-line-visualize.patch / "
            "fixes/C10-2-empty-span-at-end-line.patch, chosen by probing the tree); a repaired class is empty (C10_K2_empty_when_patched, C10_K4_empty_when_patched, "
            "C10_known_classes_shrink) and the unrepaired ones remain refuted (C10_span_refuted_patched: K1 and K3 with both patches).",
    "note": "Trusted: Coq kernel; extraction (ExtrOcamlBasic only); harness/runner; str/char/Vec/partition_point/format! width semantics modelled by "
            "documented meaning; CustomError message only (ParsingError message composition belongs to C08); display width of wide chars out of scope.",
    "design_ref": "DESIGN.md section 3, C10",
    "coq_targets": ["props/C10.vo", "Extract/PosExtract.vo"],
    "bins": ["c10"],
}


BUILD_NAME = {"default": "pest with its default features (memchr)",
              "nomemchr": "pest built with --no-default-features --features std (no memchr)"}

FX = "fx=00"   # model flags handed to the runner (<fix_continued><fix_eoi_line>); set by probe() in run()


def setup():
    harness_build(["c10_nm"], crate="harness-nm")


def probe(hbin):
    """Which Error::new_from_span is in the tree?  fix_continued: with fixes/C10-1-continued-line-visualize.patch;
    fix_eoi_line: with fixes/C10-2-empty-span-at-end-line.patch.  Decided by running the K2 and K4 witnesses on the real code."""
    rc, out = sh("%s probe" % hbin, timeout=60)
    flags = {}
    for k in ("fix_continued", "fix_eoi_line"):
        m = re.search(k + r"=(\d)", out)
        flags[k] = int(m.group(1)) if m else 0
    return flags


def run_cases(runner, cmds, timeout=3000):
    """cmds: list of (build tag, harness binary, harness arguments); every mismatch is tagged with the build it was seen on."""
    outs = run_pipeline(["%s %s | %s %s" % (hbin, c, runner, FX) for _, hbin, c in cmds], timeout=timeout)
    mism, stats = [], {}
    for (rc, out), (tag, hbin, c) in zip(outs, cmds):
        m, s, other = parse_runner_output(out)
        if rc != 0 or "mismatches" not in s or "evaluations" not in s:
            mism.append({"kind": "harness", "case": c, "impl": "pipeline failed rc=%s" % rc, "expected": out[-500:], "build": tag})
        for x in m:
            x["build"] = tag
        mism += m
        grp = ("long_" if c.startswith("long ") else "") + tag + "_"
        for k, v in s.items():
            stats[k] = stats.get(k, 0) + v if isinstance(v, int) else v
            if isinstance(v, int):
                stats[grp + k] = stats.get(grp + k, 0) + v
    return mism, stats


def one_case(hbin, runner, case, showknown=False):
    rc, out = sh("%s case '%s' | %s %s %s" % (hbin, case.replace("'", "'\\''"), runner, FX, "showknown" if showknown else ""), timeout=60)
    m, s, _ = parse_runner_output(out)
    return m, s


def case_string(case):
    k = {"S": 1, "P": 2, "Q": 3, "M": 5, "T": 2, "U": 5}.get(case[:1], 1)
    return case.split(":", k)[k]


def shrink_long(hbin, runner, case, kind, unesc_chars):
    """Shrink a P/Q case on a long text with single-case runs only: cut characters off the end of the text (behind the last offset)
    and off its start (before the first offset, the offsets move along), in halving steps, while the case still fails in the same way."""
    if case[:1] not in ("P", "Q"):
        return case
    nf = 2 if case[0] == "P" else 3
    parts = case.split(":", nf)
    try:
        offs = [int(x) for x in parts[1:nf]]
    except ValueError:
        return case
    chars = unesc_chars(parts[nf])
    nbytes = lambda cs: sum(1 if (len(c) == 2 and c[0] == "\\") else len(c.encode("utf-8")) for c in cs)

    def build(cs, os_):
        return ":".join([case[0]] + [str(o) for o in os_] + ["".join(cs)])

    def fails(cs, os_):
        m, _ = one_case(hbin, runner, build(cs, os_))
        return any(x["kind"] == kind for x in m)

    def index_of(cs, byte):     # number of chars in front of byte offset `byte`
        acc, i = 0, 0
        while i < len(cs) and acc < byte:
            acc += nbytes([cs[i]]); i += 1
        return i
    runs = 0
    # the tail
    step = (len(chars) - index_of(chars, max(offs))) // 2
    while step >= 1 and runs < 60:
        hi = index_of(chars, max(offs))
        if len(chars) - step >= hi and step <= len(chars):
            runs += 1
            if fails(chars[:len(chars) - step], offs):
                chars = chars[:len(chars) - step]
                continue
        step //= 2
    # the head
    step = index_of(chars, min(offs)) // 2
    while step >= 1 and runs < 120:
        lo = index_of(chars, min(offs))
        if step <= lo:
            runs += 1
            cut = nbytes(chars[:step])
            if fails(chars[step:], [o - cut for o in offs]):
                chars, offs = chars[step:], [o - cut for o in offs]
                continue
        step //= 2
    return build(chars, offs)


def minimise(hbin, runner, case, kind):
    """Shrink the string of a failing case: re-run every case of each shorter string (one char removed) while some case of it still fails."""
    def unesc_chars(e):
        out, i = [], 0
        while i < len(e):
            if e[i] == "\\" and i + 1 < len(e):
                out.append(e[i:i + 2]); i += 2
            else:
                out.append(e[i]); i += 1
        return out
    best_case = case
    cur = unesc_chars(case_string(case))
    if len(cur) > 80:
        # a long-line case: `one <string>` enumerates every offset pair of the string, far too many here
        return shrink_long(hbin, runner, case, kind, unesc_chars)
    improved = True
    while improved and len(cur) > 1:
        improved = False
        for i in range(len(cur)):
            cand = cur[:i] + cur[i + 1:]
            rc, out = sh("%s one '%s' | %s %s" % (hbin, "".join(cand).replace("'", "'\\''"), runner, FX), timeout=120)
            m, _, _ = parse_runner_output(out)
            m = [x for x in m if x["kind"] == kind]
            if m:
                cur = cand
                best_case = min(m, key=lambda x: len(x["case"]))["case"]
                improved = True
                break
    return best_case


def run(tier, seed, replay=None):
    res = Result("C10", tier, seed, "proof")
    thm = check_theorems("C10")
    proof_coverage(res, thm, "make -C coq props/C10.vo (coqc 8.16.1, full .vo build) + Print Assumptions", BASE_TRUST + [
        "models of position.rs, line_index.rs, span.rs, error.rs written by hand (coq/Pos/Model.v, coq/Pos/ErrorFmt.v): str as list of code points "
        "with len_utf8, byte offsets, checked usize subtraction, slicing on non-boundaries = Panic; partition_point by its specification",
    ])
    rc, out = coq_make(["Extract/PosExtract.vo"])
    if rc != 0:
        thm["ok"] = False
        thm["problems"].append("extraction build failed")
    if tier == "thorough" and thm["ok"]:
        crc, cout = coqchk("C10", timeout=900)
        res.coverage["coqchk"] = "ok" if crc == 0 else "rc=%d %s" % (crc, cout[-300:])
        if crc not in (0, 124):
            thm["ok"] = False
            thm["problems"].append("coqchk failed: " + cout[-500:])
    brc, bout, bdir = harness_build(["c10"])
    if brc != 0:
        res.violation("harness does not build against the repository (correspondence C10 cannot run)",
                      {"theorem_or_correspondence": "C10 correspondence (build)", "log": bout[-3000:]}, no_failing_input=True)
        return res.finish()
    orc, oout, runner = ocaml_build("c10_runner", ["pos_model"])
    if orc != 0:
        res.violation("OCaml runner does not build", {"theorem_or_correspondence": "C10 extraction", "log": oout[-3000:]}, no_failing_input=True)
        return res.finish()
    hbin = os.path.join(bdir, "c10")
    # the same harness source against pest built WITHOUT its default feature `memchr` (cfg(not(feature = "memchr")) code paths)
    nrc, nout, ndir = harness_build(["c10_nm"], crate="harness-nm")
    if nrc != 0:
        res.violation("harness does not build against pest without its default features (--no-default-features --features std): "
                      "correspondence C10 cannot run for that build",
                      {"theorem_or_correspondence": "C10 correspondence (build, pest without memchr)", "log": nout[-3000:]}, no_failing_input=True)
    BIN = {"default": hbin, "nomemchr": os.path.join(ndir, "c10_nm")}
    builds = ["default"] + (["nomemchr"] if nrc == 0 else [])
    global FX
    flags = probe(hbin)
    FX = "fx=%d%d" % (flags["fix_continued"], flags["fix_eoi_line"])
    log("C10: implementation state (probe): Error::new_from_span continued line %s, empty span at end of input %s -> model flags %s" %
        ("repaired (C10-1 patch)" if flags["fix_continued"] else "as shipped",
         "repaired (C10-2 patch)" if flags["fix_eoi_line"] else "as shipped", FX))

    if replay:
        rj = json.load(open(replay))
        case = rj.get("case", "")
        rb = rj.get("build", "default")
        if rb not in builds:
            log("replay: the build `%s` named in the replay file is not available" % rb)
            res.violation("replay needs pest built without its default features, which does not build", {"case": case, "build": rb}, no_failing_input=True)
            return res.finish()
        log("replay on build: %s (%s)" % (rb, BUILD_NAME[rb]))
        m, s = one_case(BIN[rb], runner, case, showknown=True)
        for x in m:
            log("  %s case=%s impl=%s expected=%s" % (x["kind"], x["case"], x["impl"][:400], x["expected"][:400]))
        spec = [x for x in m if x["kind"] == "spec"]
        log("replay %s: spec-disagreement=%s model-disagreement=%s known-class=%s" %
            (case, bool(spec), any(x["kind"] == "model" for x in m), any(x["kind"] == "known" for x in m)))
        if spec:
            res.violation("replayed case still violates the specification", {"case": case, "build": rb, "impl": spec[0]["impl"], "spec": spec[0]["expected"]})
        return res.finish()

    corpus = []
    cpath = os.path.join(ROOT, "corpus", "C10.txt")
    if os.path.exists(cpath):
        corpus = [l.rstrip("\n") for l in open(cpath) if l.strip() and not l.startswith("#")]
    base = ["one '%s'" % c.replace("'", "'\\''") for c in corpus]
    shards = max(4, min(NPROC, 16))
    if tier == "quick":
        exhaustive_len = 5
        base += ["exhaustive %d 0 1" % n for n in (0, 1, 2, 3, 4)]
        base += ["exhaustive 5 %d %d" % (k, shards) for k in range(shards)]
        base += ["random 600 %d 40" % (seed * 1000 + i) for i in range(shards)]
        # long lines (see `long` in c10.rs): budget in units of (chars/1000)^2 model work, longest text
        long_plan = {"default": (100, 5000, max(2, (2 * shards) // 3)), "nomemchr": (50, 2200, max(2, shards // 3))}
    else:
        exhaustive_len = 7
        base += ["exhaustive %d 0 1" % n for n in (0, 1, 2, 3, 4)]
        base += ["exhaustive 5 %d %d" % (k, 4) for k in range(4)]
        base += ["exhaustive 6 %d %d" % (k, shards) for k in range(shards)]
        base += ["exhaustive 7 %d %d" % (k, 4 * shards) for k in range(4 * shards)]
        base += ["random 6000 %d 60" % (seed * 1000 + i) for i in range(shards)]
        long_plan = {"default": (1500, 5000, 2 * shards), "nomemchr": (600, 5000, shards)}
    # every command on both builds of pest; the long-line shards first (the slowest single cases are there)
    cmds = []
    for b in builds:
        budget, maxlen, n = long_plan[b]
        cmds += [(b, BIN[b], "long %d %d %d %d %d" % (seed, k, n, budget, maxlen)) for k in range(n)]
    nm_note = ""
    for b in builds:
        if b == "default":
            cmds += [(b, BIN[b], c) for c in base]
        elif tier == "quick":
            # without memchr: everything up to length 4, a quarter of the length-5 strings (which quarter depends on the seed), the random strings
            q = seed % 4
            cmds += [(b, BIN[b], c) for c in base if not c.startswith("exhaustive 5 ")]
            cmds += [(b, BIN[b], "exhaustive 5 %d %d" % (q * shards + k, 4 * shards)) for k in range(shards)]
            nm_note = "; without memchr the exhaustive sweep covers length <= 4 and a quarter of the strings of length 5"
        else:
            # thorough: the length-7 sweep stays on the default build; without memchr up to length 6
            cmds += [(b, BIN[b], c) for c in base if not c.startswith("exhaustive 7 ")]
            nm_note = "; without memchr the exhaustive sweep stops at length 6"
    # run at most NPROC pipelines at a time
    mism, stats = [], {}
    for i in range(0, len(cmds), NPROC):
        m, s = run_cases(runner, cmds[i:i + NPROC])
        mism += m
        for k, v in s.items():
            stats[k] = stats.get(k, 0) + v if isinstance(v, int) else v

    spec_m = [m for m in mism if m["kind"] == "spec"]
    model_m = [m for m in mism if m["kind"] == "model"]
    other_m = [m for m in mism if m["kind"] not in ("spec", "model")]
    border = {b: i for i, b in enumerate(builds)}
    rank = lambda m: (len(m["case"]), border.get(m.get("build"), 9), m["case"])
    if spec_m:
        worst = min(spec_m, key=rank)
        wb = worst.get("build", "default")
        small = minimise(BIN[wb], runner, worst["case"], "spec")
        d, _ = one_case(BIN[wb], runner, small)
        d = ([x for x in d if x["kind"] == "spec"] or [worst])[0]
        only = sorted(set(m.get("build", "default") for m in spec_m))
        res.violation("pest%s disagrees with the line/column specification on case %s (S/P/Q/M : offsets : string)" %
                      ("" if wb == "default" else " (" + BUILD_NAME[wb] + ")", small if len(small) < 300 else small[:120] + "... (%d chars)" % len(small)),
                      {"theorem_or_correspondence": "C10 oracle: impl vs extracted Pos.Spec", "case": small, "build": wb, "build_means": BUILD_NAME[wb],
                       "builds_with_spec_disagreements": only, "impl": d["impl"], "spec": d["expected"],
                       "minimised_from": worst["case"], "other_failing_cases": [m["case"][:300] + " [" + m.get("build", "default") + "]" for m in sorted(spec_m, key=rank)[:10]],
                       "legend": "P:<offset>:<string>, Q:<start>:<end>:<string>, S:<string>, M:<a>:<b>:<c>:<d>:<string>, T:<tree s-e[children],..>:<string>, U:<a>:<c>:<d>:<b>:<string>; \\n \\r \\t escaped"})
    elif model_m:
        worst = min(model_m, key=rank)
        wb = worst.get("build", "default")
        small = minimise(BIN[wb], runner, worst["case"], "model")
        d, _ = one_case(BIN[wb], runner, small)
        d = ([x for x in d if x["kind"] == "model"] or [worst])[0]
        res.violation("correspondence broken: pest%s differs from coq/Pos/Model.v + ErrorFmt.v on case %s, but no case was found on which it "
                      "differs from the specification outside the known classes" % ("" if wb == "default" else " (" + BUILD_NAME[wb] + ")", small[:300]),
                      {"theorem_or_correspondence": "C10 correspondence: impl vs extracted Pos.Model/ErrorFmt", "case": small, "build": wb,
                       "impl": d["impl"], "model": d["expected"], "searched": stats}, no_failing_input=True)
    for m in other_m:
        res.violation("harness failure: " + m["impl"], {"theorem_or_correspondence": "C10 correspondence (run)", "case": m["case"], "log": m["expected"]},
                      no_failing_input=True)
    if not thm["ok"]:
        res.violation("proof obligation no longer checks: " + "; ".join(thm["problems"]),
                      {"theorem_or_correspondence": "coq/props/C10.v", "log": thm["log"][-3000:]}, no_failing_input=not spec_m)

    # the refuted clauses: replay each witness on the real code; it is reported as a known finding while it reproduces
    registered = {f.get("class"): f for f in known_findings("C10")}
    reproduced = {}
    for k, v in sorted(KNOWN_CLASSES.items()):
        m, s = one_case(hbin, runner, v["witness"], showknown=True)
        rep = any(x["kind"] == "known" for x in m)
        reproduced[k] = rep
        entry = registered.get("C10-" + k)
        if rep and not (entry and entry.get("status") == "fixed"):
            res.known_finding("class=C10-%s witness=%s %s%s" % (k, v["witness"], v["what"], "" if entry else " [not yet in known_findings.json]"))
        elif rep:
            res.violation("finding C10-%s is recorded as fixed but its witness %s still reproduces" % (k, v["witness"]),
                          {"theorem_or_correspondence": "C10 known class " + k, "case": v["witness"]})

    res.coverage.update({
        "evaluations": stats.get("evaluations", 0),
        "distinct_nontrivial": max([stats.get(b + "_distinct_nontrivial", 0) + stats.get("long_" + b + "_distinct_nontrivial", 0) for b in builds] or [0]),
        "distinct_nontrivial_per_build": {b: stats.get(b + "_distinct_nontrivial", 0) + stats.get("long_" + b + "_distinct_nontrivial", 0) for b in builds},
        "rule": "every string of length <= %d over {a, e-acute (2 bytes), emoji (4 bytes), LF, CR, TAB}: all byte offsets for Position::new/Span::new (length <= 4), "
                "every boundary offset (P) and every ordered pair of boundary offsets (Q), all quadruples for merge_spans (length <= 2), PairsBuilder trees that are NOT in source order / whose children start after or reach past their parents "
                "(per boundary x: `x-x,0-0` and `0-0[x-len]`, plus 2 random trees of 1-9 nodes per string; Pair::line_col of every pair, walked and flattened) and real nested parses "
                "through pest::state whose last token ends before the end of the input (3 per string); plus random strings of "
                "6-40 chars in four profiles (many short lines so that line numbers reach two digits, CR/CRLF-heavy, tabs+multi-byte, uniform) with all offsets and "
                "a sample of pairs; all of it run twice, against pest with its default features and against pest built without memchr (rust/harness-nm, same harness source%s); plus long lines (see long_lines). Non-trivial = the text before the (end) offset contains a LF, CR, TAB or multi-byte char; distinct by case text; distinct_nontrivial is the larger of the two builds' counts (the same cases are run on both), evaluations is the sum." % (exhaustive_len, nm_note),
        "builds": {b: BUILD_NAME[b] for b in builds},
        "evaluations_per_build": {b: stats.get(b + "_evaluations", 0) + stats.get("long_" + b + "_evaluations", 0) for b in builds},
        "long_lines": {"what": "texts with one or two lines of 1030..%d characters (ASCII / ASCII+2-byte / ASCII+4-byte+2-byte / ASCII+TAB; alone, after LF and CRLF lines, "
                               "followed by nothing, LF, CRLF, a short line or a second long line): positions (P) and spans (Q: empty, 1 and 3 chars, to the end of the line, "
                               "into the next line, from the start of the input) at columns drawn from 1, 2, 1023-1026, 1500, 2047-2049, 4095-4097 and the last columns of the line; "
                               "compared verbatim with the extracted model and judged by the extracted specification like every other case" % max(long_plan[b][1] for b in builds),
                       "cases_per_build": {b: stats.get("long_" + b + "_evaluations", 0) for b in builds},
                       "plan (budget in (chars/1000)^2 units of model work, longest text, shards)": {b: list(long_plan[b]) for b in builds}},
        "exhaustive": True,
        "exhaustive_bound": "string length <= %d chars over the 6-symbol alphabet (the theorems are unbounded)" % exhaustive_len,
        "samples": ["P:3:a\\r\\nb", "Q:1:4:ab\\ncd\\nef", "Q:0:7:abcdef\\n", "S:é😀"] + corpus[:3],
        "runner_cases": stats.get("cases", 0),
        "mismatches": len(mism),
        "known_class_cases": stats.get("known_class", 0),
        "known_witnesses_reproduced": reproduced,
        "model_flags": flags,
    })
    res.assumptions = ["error variant CustomError with a fixed message (and with_path on position errors); ParsingError message text is C08's",
                       "Pair::line_col exercised through PairsBuilder (whole-input index) and through pest::state (index truncated at the last token)",
                       "lines meeting a span read as in DESIGN.md section 2 (closed interval [start,end] against non-empty lines)"]
    if "nomemchr" not in builds:
        res.assumptions.append("pest without its default features did NOT build: only the default build was exercised")
    return res.finish()
