"""C09 - the grammar front-end is total: any text yields rules or located errors."""
import shlex
import tempfile
from common import *

CLASSES = {
    "C09-invalid-escape": {
        "match": ["incorrect string literal", "incorrect char literal"],
        "witness": 'a = { "\\u{D800}" }',
        "what": "a \\u{..} escape that is not a Unicode scalar value (surrogate, > 10FFFF) in a string / insensitive string / char range / "
                "PUSH_LITERAL makes parse_and_optimize panic at parser.rs `unescape(..).expect(\"incorrect string literal\")`",
        "patch": "fixes/C09-1-invalid-escape-located-error.patch", "probe": ["fix_escape_str", "fix_escape_chr", "fix_escape_ins"]},
    "C09-peek-index": {
        "match": ["ParseIntError"],
        "witness": "a = { PEEK[99999999999..] }",
        "what": "a PEEK[a..b] index outside i32 makes parse_and_optimize panic at parser.rs `pair.as_str().parse().unwrap()`",
        "patch": "fixes/C09-2-peek-index-overflow-located-error.patch", "probe": ["fix_peek", "fix_peek_end"]},
    "C09-nested-leading-choice": {
        "match": ["Expected prefix or primary expression"],
        "witness": 'a = { ( | "a" ) }',
        "what": "grammar.pest allows a leading `|` in every expression, consume_rules skips it only at the top of a rule: inside ( ) or PUSH( ) "
                "the Pratt parser panics with `Expected prefix or primary expression, found |`",
        "patch": "fixes/C07-2-nested-leading-choice-operator.patch (the same repair, found independently for C07; in /repo since d1adc38)",
        "probe": ["fix_paren_choice", "fix_push_choice"]},
    "C09-unroller-overflow": {
        "match": ["attempt to add with overflow", "called `Option::unwrap()` on a `None` value"],
        "witness": 'a = { "x"{4294967294,} }',
        "what": "the unroller computes `1..min + 2` / `1..num + 1` in u32: e{4294967294,} (and e{4294967295}, e{,4294967295}) overflow "
                "(panic with overflow checks; without them the empty range makes the fold's unwrap() panic)",
        "patch": "fixes/C09-4-unroller-count-overflow.patch", "probe": ["fix_unroll"]},
}
EXPO_CLASS = "C09-validator-exponential"
# what the runner appends to a slow observation when the extracted model of the UNMODIFIED front end is cheap on the text (few validator
# steps, whole model answers at once): the text is then outside the registered exponential class and the slowness is judged
OUTSIDE_EXPO = "outside C09-validator-exponential"


def is_slow(m):
    return "took " in m["impl"] or "no answer" in m["impl"]
EXPO_WHAT = ("validate_ast (is_non_failing / is_non_progressing / left_recursion::check_expr) and the skipper's populate_choices re-traverse every rule "
             "they reach, nothing is remembered: on a1 = { a2 ~ a2 } a2 = { a3 ~ a3 } .. an = { \"\" } (also with `|`, and for `@{ (!a1 ~ ANY)* }`) "
             "the time doubles with every rule (Coq: validator_steps_exponential, C09_steps_refuted). No small memoisation is safe: the results depend "
             "on the `trace` argument (a rule already on the trace counts as false), e.g. caching per rule name turns "
             "`a = { b ~ \"x\" | \"\" } b = { a }`, expression `a ~ b`, from non-failing into failing")

META = {
    "property_id": "C09",
    "level": "proof",
    "technique": "Coq proof over a hand-written executable model of parse_and_optimize after the meta-parse (validate_pairs, consume_rules with every "
                 "unwrap/expect/unreachable!/number parse/slice explicit, validate_ast with step counting, the optimizer passes with the unroller's u32 "
                 "arithmetic), with the token forest constrained by the SHAPE invariant of grammar.pest (children of a node = a word of the regular "
                 "language of its rule, decided by a verified derivative matcher); model tied to the code by differential runs of the extracted model "
                 "on the REAL token forests of mutated/truncated/garbage grammars; defects found by the harness and refuted in Coq on witnesses",
    "text": "Theorems (coq/props/C09.v, closed under the global context), for every text and every token forest of the shape grammar.pest "
            "prescribes, every fuel, any repetition counts: C09_total_located / C09_no_panic - the code WITH the C09 repairs (fixes/C09-1, -2, -4 and the "
            "leading-`|` repair now in the tree) never panics, docs::consume does not panic; C09_locations - in ANY configuration (as shipped, repaired, "
            "in between) every reported error is a position / ordered span on char boundaries of the text and renders (C10's theorem); "
            "C09_no_panic_bounded_counts - the same no-panic result with the unroller as shipped when all counts are <= 2^32-3; C09_terminates_partial - "
            "reader, validator and the optimizer passes rotate / factor terminate (fuel = nesting depth / number of rules / body size suffices; the "
            "skipper's termination rests on C06 and is not covered); C09_shape_is_regular - shape_ok is the regular-language statement. The full "
            "statement C09_statement is REFUTED for the code without the repairs (C09_refuted, C09_refuted_witnesses: panicking witnesses in four "
            "classes, evaluated in Coq on the real token forests and replayed on the real code every run) and, for the bounded-time clause, for every "
            "configuration (validator_steps_exponential: >= 2^n steps on a quadratic-size family; C09_steps_refuted). Every run: real "
            "parse_and_optimize (child process, catch_unwind, wall clock) on the shipped grammars, their token-level mutants, prefixes, byte damage, "
            "numeric / PEEK / escape edge cases, unterminated and unbalanced constructs, non-ASCII, NUL, long and deeply nested texts, random garbage and "
            "damaged generated grammars, grammars around rule-reference cycles, with and without grammar-extras; oracle: outcome class, every error location valid, all renderings; extracted "
            "model vs implementation on class, error multiset (kind, location) and docs::consume; extracted shape_ok on every real forest. The model "
            "follows the tree: the harness probes which repairs (C09's and those of C06 / C07 that touch modelled functions) are present. When "
            "implementation and model disagree, an escalated search derives texts from the disagreeing ones (slices, first-position skeletons, added "
            "skip-until rules and callers, mutants) and evaluates the property on the real code for them (coverage.escalated_search)."
            " Ladders (chains of up to 40 rules, every rule mentioning the next one two or three times through every operator, used from the places where the "
            "validator and optimizer passes ask their questions, with and without stack operators) run in guarded workers under the time limit; whether a slow "
            "ladder belongs to the registered exponential class is decided by the extracted step-counting model of the unmodified front end (few steps and a "
            "slow real front end = violation), which also replaces the size rule for slow texts of the escalated search."
            " Generated grammars include rule-reference cycles through every first-position operator, entered from rules sorting before/between/after the members, with skip-until rules over them; when the real front end accepts what the model rejects, grammars derived from the disagreeing text (skip-until rules and callers around the suspect rules) are run in guarded worker processes and an abort, panic or hang is the replay.",
    "note": "Trusted: Coq kernel; extraction (ExtrOcamlBasic only); harness/runner; the meta-parser itself is outside the model (its output forest is the "
            "model's input: shape checked dynamically, provable from C01/C14/C04); str/char/Vec/HashMap/number-parsing semantics by documented meaning; "
            "restore_on_err (no panic site) not modelled; native stack depth and memory are outside the model (measured: a few thousand nested "
            "parentheses overflow an 8 MiB stack); polynomial-but-steep passes (cubic in chain length) are measured and reported, not judged.",
    "design_ref": "DESIGN.md section 3, C09; section 4 rows 8-9",
    "coq_targets": ["props/C09.vo", "Extract/FrontExtract.vo"],
    "bins": ["c09"],
    "feature_bins": {"extras": ["c09"]},
}


def probe(hbin):
    rc, out = sh("%s probe" % hbin, timeout=120)
    vals = {}
    for line in out.split("\n"):
        if line.startswith("#PROBE"):
            for kv in line.split("\t")[1:]:
                k, v = kv.split("=")
                vals[k] = int(v)
    return vals


def model_flags(vals, extras, tag_state=False):
    def allof(keys):
        return all(vals.get(k, 0) == 1 for k in keys)
    fl = [allof(CLASSES["C09-invalid-escape"]["probe"]), allof(CLASSES["C09-peek-index"]["probe"]),
          allof(CLASSES["C09-nested-leading-choice"]["probe"]), allof(CLASSES["C09-unroller-overflow"]["probe"]), extras,
          vals.get("fix_lr", 0) == 1, (vals.get("fix_tag", 0) == 1) if extras else tag_state, vals.get("fix_insens", 0) == 1]
    return "".join("1" if x else "0" for x in fl)


def plan(tier, seed, repo):
    if tier == "quick":
        # ladders: each process stops after 3 ladders that were slow (seconds each; on the unchanged tree those are the registered exponential class)
        cmds = ["lad %d 40 3 40" % (seed * 100 + i) for i in range(4)]
        cmds += ["fixed"] + ["ship %s %d 120 60 %d 8" % (shlex.quote(repo), seed, k) for k in range(8)]
        cmds += ["rnd %d 4000" % (seed * 100 + i) for i in range(3)] + ["gen %d 350" % (seed * 100 + i) for i in range(2)]
        cmds += ["cyc %d 1500" % (seed * 100 + i) for i in range(2)]
        cmds += ["deep 0 50 100 200 300", "deep 1 50 100 200 300"]
        expo = "expo 12 20 seq cho skip"
        scale = "scale 50 100 200"
    else:
        cmds = ["fixed big"] + ["ship %s %d 1500 600 %d 16 all" % (shlex.quote(repo), seed, k) for k in range(16)]
        cmds += ["rnd %d 60000" % (seed * 100 + i) for i in range(8)] + ["gen %d 4000" % (seed * 100 + i) for i in range(6)]
        cmds += ["cyc %d 20000" % (seed * 100 + i) for i in range(6)]
        cmds += ["lad %d 400 40 40" % (seed * 100 + i) for i in range(8)]
        cmds += ["deep 0 50 100 200 300 500 1000", "deep 1 50 100 200 300 500 1000"]
        expo = "expo 10 24 seq cho skip"
        scale = "scale 50 100 200 400 800"
    return cmds, expo, scale


def run_cases(hbin, runner, flags, cmds, timeout=3000):
    mism, stats, lines = [], {}, []
    for i in range(0, len(cmds), NPROC):
        batch = cmds[i:i + NPROC]
        # the extracted model recurses as deep as the expressions are nested / chained: give the runner a large stack
        outs = run_pipeline(["%s %s | (ulimit -s unlimited 2>/dev/null; %s %s)" % (hbin, c, runner, flags) for c in batch], timeout=timeout)
        for (rc, out), c in zip(outs, batch):
            m, s, other = parse_runner_output(out)
            if rc != 0 or "mismatches" not in s or "evaluations" not in s:
                mism.append({"kind": "harness", "case": c, "impl": "pipeline `%s` failed rc=%s" % (c, rc), "expected": out[-800:]})
            mism += m
            for k, v in s.items():
                stats[k] = stats.get(k, 0) + v if isinstance(v, int) else v
            lines += [l for l in out.split("\n") if l.startswith("#EXPO") or l.startswith("#SCALE")]
    return mism, stats, lines


def classify(msg, text=""):
    """the class of a panic message, confirmed on the text (a panic with the same message from another site is NOT in the class)"""
    for cls, d in CLASSES.items():
        if any(x in msg for x in d["match"]):
            if cls == "C09-peek-index" and "PEEK" not in text:
                return None
            if cls == "C09-unroller-overflow" and not re.search(r"429496729[45]", text):
                return None
            if cls == "C09-invalid-escape" and "\\u{" not in text and "\\" not in text:
                return None
            if cls == "C09-nested-leading-choice" and "|" not in text:
                return None
            return cls
    return None


def kv_line(line):
    return dict(kv.split("=", 1) for kv in line.split("\t")[1:] if "=" in kv)


def case_text(case):
    t = case.split("|", 1)[1] if "|" in case else case
    out, i = [], 0
    while i < len(t):
        if t[i] == "\\" and i + 1 < len(t):
            out.append({"n": "\n", "r": "\r", "t": "\t", "\\": "\\"}.get(t[i + 1], "\\" + t[i + 1]))
            i += 2
        else:
            out.append(t[i])
            i += 1
    return "".join(out)


def esc_text(t):
    return t.replace("\\", "\\\\").replace("\t", "\\t").replace("\n", "\\n").replace("\r", "\\r")


def rule_count(text):
    return len(re.findall(r"(?m)^[ \t]*[A-Za-z_][A-Za-z0-9_]*[ \t]*=", text))


def disagreeing_locations(m):
    """the error locations that only one side reports, as byte ranges"""
    def locs(s):
        out = set()
        for a, b, p in re.findall(r"@(?:S(\d+)-(\d+)|P(\d+))", s):
            out.add((int(a), int(b)) if a else (int(p), int(p)))
        return out
    a, b = locs(m["impl"]), locs(m["expected"])
    return sorted(a ^ b)


def escalate(hbin, runner, flags, model_m, seed, tier, tag=""):
    """The search that follows a broken correspondence: starts from the (shortest, distinct) texts on which the implementation and the
    model disagree, lets the harness derive texts from them that make the later stages walk through the part the two sides disagree on
    (mode `escalate` of c09.rs), and evaluates the property's own oracle (worker process: panic / abort / hang / unlocated or
    unrenderable error) on the real code.  Returns (mismatches of the derived cases, statistics)."""
    picks, seen = [], set()
    # impl accepts what the model refuses first: the later stages then run on something the validator should have stopped
    def rank(m):
        return (0 if m["impl"].startswith("class|rules") else 1 if m["impl"].startswith("class|") else 2, len(m["case"]))
    for m in sorted(model_m, key=rank):
        if m["impl"].startswith("shape|") or m["impl"].startswith("docs|"):
            continue
        t = case_text(m["case"])
        if t in seen or len(t) > 20000:
            continue
        seen.add(t)
        picks.append((t, disagreeing_locations(m)))
        if len(picks) >= (6 if tier == "quick" else 20):
            break
    if not picks:
        return [], {}
    with tempfile.NamedTemporaryFile("w", suffix=".esc", delete=False) as f:
        for t, locs in picks:
            f.write("%s\t%s\n" % (esc_text(t), ",".join("%d-%d" % l for l in locs)))
        path = f.name
    mism, stats, _ = run_cases(hbin, runner, flags, ["escalate %s %d %d" % (shlex.quote(path), seed, 1500 if tier == "quick" else 6000)], timeout=900)
    os.unlink(path)
    for x in mism:
        x["case"] = tag + x["case"]
    stats["escalated_from_texts"] = len(picks)
    return mism, stats


def run(tier, seed, replay=None):
    res = Result("C09", tier, seed, "proof")
    thm = check_theorems("C09")
    proof_coverage(res, thm, "make -C coq props/C09.vo (coqc 8.16.1, full .vo build) + Print Assumptions", BASE_TRUST + [
        "models of meta/src/parser.rs (consume_rules_with_spans .. unescape), meta/src/validator.rs, meta/src/optimizer/*.rs (without restorer), "
        "generator/src/docs.rs written by hand (coq/Front/{Consume,Validate,Optimize,Frontend}.v); the Pratt parser is C13's model",
        "the shape invariant of the meta-parser's token forest (coq/Front/Shape.v, transcribed from meta/src/grammar.pest) is an ASSUMPTION of the "
        "theorems, evaluated on every real parse by the runner",
        "tools/c09_witness.py (real token forests of the witness texts as Gallina terms; regenerated and compared every run)",
    ])
    rc, out = coq_make(["Extract/FrontExtract.vo"])
    if rc != 0:
        thm["ok"] = False
        thm["problems"].append("extraction build failed")
    if tier == "thorough" and thm["ok"]:
        crc, cout = coqchk("C09", timeout=1500)
        res.coverage["coqchk"] = "ok" if crc == 0 else "rc=%d %s" % (crc, cout[-300:])
        if crc not in (0, 124):
            thm["ok"] = False
            thm["problems"].append("coqchk failed: " + cout[-500:])
    brc, bout, bdir = harness_build(["c09"])
    if brc != 0:
        res.violation("harness does not build against the repository (correspondence C09 cannot run)",
                      {"theorem_or_correspondence": "C09 correspondence (build)", "log": bout[-3000:]}, no_failing_input=True)
        return res.finish()
    for attempt in range(4):
        orc, oout, runner = ocaml_build("c09_runner", ["front_model"])
        if orc == 0:
            break
        time.sleep(1 + attempt)
    if orc != 0:
        res.violation("OCaml runner does not build", {"theorem_or_correspondence": "C09 extraction", "log": oout[-3000:]}, no_failing_input=True)
        return res.finish()
    hbin = os.path.join(bdir, "c09")
    vals = probe(hbin)
    flags = model_flags(vals, False)
    rflags = flags
    log("C09: implementation state (probe): %s -> model flags escape/peek/choice/unroll/extras/lr/tag/insens = %s" % (
        " ".join("%s=%d" % kv for kv in sorted(vals.items())), flags))

    if replay:
        rj = json.load(open(replay))
        text = rj.get("text", rj.get("case", ""))
        with tempfile.NamedTemporaryFile("w", suffix=".pest", delete=False) as f:
            f.write(text)
            path = f.name
        rc, out = sh("%s file %s | (ulimit -s unlimited 2>/dev/null; %s %s)" % (hbin, shlex.quote(path), runner, rflags), timeout=300)
        os.unlink(path)
        m, s, _ = parse_runner_output(out)
        spec = [x for x in m if x["kind"] == "spec"]
        log("replay: %d mismatches (%d against the property)" % (len(m), len(spec)))
        for x in m[:6]:
            log("  %s %s\n    impl=%s\n    expected=%s" % (x["kind"], x["case"][:200], x["impl"][:400], x["expected"][:300]))
        if spec:
            res.violation("replayed text still violates the property: %s" % spec[0]["impl"][:300], {"text": text, "impl": spec[0]["impl"]})
        return res.finish()

    # the witness forests embedded in coq/Front/Witnesses.v are those of THIS meta-parser
    wrc, wout = sh("python3 %s %s" % (os.path.join(ROOT, "tools", "c09_witness.py"), hbin), timeout=120)
    if wrc != 0 or wout != open(os.path.join(COQ, "Front", "Witnesses.v")).read():
        res.violation("the token forests of the witness texts in coq/Front/Witnesses.v are not the ones the meta-parser of this tree returns "
                      "(regenerate with tools/c09_witness.py)", {"theorem_or_correspondence": "C09_refuted_witnesses (witness replay)", "log": wout[-1500:]},
                      no_failing_input=True)

    cmds, expo, scale = plan(tier, seed, REPO)
    mism, stats, lines = run_cases(hbin, runner, rflags, cmds + [expo, scale])

    # grammar-extras: the same fixed families and garbage with the feature on
    xrc, xout, xdir = harness_build(["c09"], features="extras")
    xstats = {}
    if xrc == 0:
        xbin = os.path.join(xdir, "c09")
        xflags = model_flags(probe(xbin), True)
        xm, xstats, _ = run_cases(xbin, runner, xflags, ["fixed"] + ["rnd %d %d" % (seed * 100 + 50 + i, 3000 if tier == "quick" else 40000) for i in range(2)]
                                  + ["cyc %d %d extras" % (seed * 100 + 50, 800 if tier == "quick" else 20000)])
        for x in xm:
            x["case"] = "[grammar-extras] " + x["case"]
        mism += xm
    else:
        mism.append({"kind": "harness", "case": "extras", "impl": "harness does not build with grammar-extras", "expected": xout[-800:]})

    # ---- escalated search: only when implementation and model disagree somewhere (nothing of this runs on a tree that agrees)
    esc_stats, esc_found, esc_slow = {}, [], []
    first_model = [m for m in mism if m["kind"] == "model"]
    if first_model:
        spec0 = set(m["case"] for m in mism if m["kind"] == "spec")
        plain = [m for m in first_model if m["case"] not in spec0 and not m["case"].startswith("[grammar-extras] ")]
        ext = [m for m in first_model if m["case"] not in spec0 and m["case"].startswith("[grammar-extras] ")]
        em, esc_stats = escalate(hbin, runner, rflags, plain, seed, tier) if plain else ([], {})
        if ext and xrc == 0 and not any(m["kind"] == "spec" for m in em):
            em2, st2 = escalate(xbin, runner, xflags, ext, seed, tier, tag="[grammar-extras] ")
            em += em2
            for k, v in st2.items():
                esc_stats[k] = esc_stats.get(k, 0) + v if isinstance(v, int) else v
        # a derived text that is merely slow and has many rules may be the registered exponential class: the runner asked the model of the
        # unmodified front end; judged when the model is cheap on it (the class is defined by the algorithm, not by the size), else counted
        for m in em:
            if m["kind"] == "spec" and is_slow(m) and rule_count(case_text(m["case"])) > 16 and OUTSIDE_EXPO not in m["impl"]:
                esc_slow.append(m)
            else:
                mism.append(m)
                if m["kind"] == "spec":
                    esc_found.append(m)
        log("C09: escalated search from %d disagreeing texts: %d derived evaluations, %d failing observations%s" % (
            esc_stats.get("escalated_from_texts", 0), esc_stats.get("evaluations", 0), len(esc_found),
            " (%d slow many-rule texts on which the model of the unmodified front end is slow too: left to the exponential-class measurement)" % len(esc_slow) if esc_slow else ""))

    # ---- classify
    by_class, other_spec, expo_spec, lad_known, lad_found = {}, [], [], [], []
    for m in mism:
        if m["kind"] != "spec":
            continue
        kind = m["case"].split("|", 1)[0].replace("[grammar-extras] ", "")
        cls = classify(m["impl"], case_text(m["case"]))
        if kind.startswith("expo-") and ("took " in m["impl"] or "no answer" in m["impl"]):
            expo_spec.append(m)
        elif kind == "lad" and (is_slow(m) or "worker process died" in m["impl"]) and OUTSIDE_EXPO not in m["impl"]:
            lad_known.append(m)   # slow where the model of the unmodified algorithm is slow too: the registered class (or undecided), not judged
        elif kind == "lad" and OUTSIDE_EXPO in m["impl"]:
            lad_found.append(m)
            other_spec.append(m)
        elif kind.startswith("scale-") and ("took " in m["impl"] or "no answer" in m["impl"]):
            pass   # polynomial (cubic) growth on long chains: measured (#SCALE rows in the evidence), not judged
        elif cls:
            by_class.setdefault(cls, []).append(m)
        else:
            other_spec.append(m)
    # a class whose witness still panics (probe) is reported even when no generated case happened to hit it
    for cls, d in CLASSES.items():
        if cls not in by_class and any(vals.get(k, 1) == 0 for k in d["probe"]):
            by_class[cls] = [{"kind": "spec", "case": "probe|" + d["witness"].replace("\\", "\\\\"), "impl": "parse_and_optimize panicked on the class witness (probe)", "expected": ""}]
    for cls, ms in sorted(by_class.items()):
        d = CLASSES[cls]
        worst = min(ms, key=lambda m: len(m["case"]))
        text = case_text(worst["case"])
        res.violation("parse_and_optimize panics (class %s: %s); shortest case found: `%s`: %s (%d cases in this class). Coq: C09_refuted_witnesses; "
                      "repair: %s" % (cls, d["what"], text[:200], worst["impl"][:160], len(ms), d["patch"]),
                      {"theorem_or_correspondence": "C09 oracle (never panics) + C09_refuted_witnesses", "class": cls, "text": text, "witness": d["witness"],
                       "impl": worst["impl"], "cases_in_class": len(ms), "suggested_fix": d["patch"]})
    def margin(m):
        """slow observations with a wide margin over the limit first: their replay does not depend on the load of the machine"""
        t = re.search(r"took (\d+) ms", m["impl"])
        return 1 if (t and int(t.group(1)) < 1.5 * 2000) else 0
    for m in sorted(other_spec, key=lambda m: (margin(m), len(m["case"])))[:5]:
        res.violation("property violated outside the known classes: %s on `%s`" % (m["impl"][:300], case_text(m["case"])[:200]),
                      {"theorem_or_correspondence": "C09 oracle", "text": case_text(m["case"]), "impl": m["impl"]})

    # ---- the step bound: growth of the running time on the exponential families
    expo_rows = [kv_line(l) for l in lines if l.startswith("#EXPO")]
    growth = {}
    for k in ("seq", "cho", "skip"):
        rows = sorted([(int(r["n"]), int(r["ms"]), r["class"]) for r in expo_rows if r["kind"] == k])
        big = [r for r in rows if r[1] >= 40]
        ratios = [b[1] / a[1] for a, b in zip(big, big[1:]) if a[1] > 0]
        growth[k] = {"rows": rows[-6:], "mean_ratio_per_rule": round(sum(ratios) / len(ratios), 2) if ratios else None}
    reproduced = any(g["mean_ratio_per_rule"] and g["mean_ratio_per_rule"] >= 1.6 for g in growth.values()) or bool(expo_spec)
    registered = {f.get("class"): f for f in known_findings("C09")}
    if reproduced:
        entry = registered.get(EXPO_CLASS)
        wit = "a1 = { a2 ~ a2 } .. an = { \"\" }: " + "; ".join("%s: %s ms at n=%s, x%s per rule" % (
            k, g["rows"][-1][1] if g["rows"] else "?", g["rows"][-1][0] if g["rows"] else "?", g["mean_ratio_per_rule"]) for k, g in sorted(growth.items()))
        if entry and entry.get("status") == "fixed":
            res.violation("finding %s is recorded as fixed but the running time still doubles per rule: %s" % (EXPO_CLASS, wit),
                          {"theorem_or_correspondence": "C09 step bound", "growth": growth})
        else:
            res.known_finding("class=%s witness=%s -- %s%s" % (EXPO_CLASS, wit, EXPO_WHAT, "" if entry else " [not yet in known_findings.json]"))
    scale_rows = [kv_line(l) for l in lines if l.startswith("#SCALE")]

    # ---- correspondence
    model_m = [m for m in mism if m["kind"] == "model"]
    other_m = [m for m in mism if m["kind"] not in ("spec", "model")]
    spec_cases = set(m["case"] for m in mism if m["kind"] == "spec")
    model_m = [m for m in model_m if m["case"] not in spec_cases]     # already reported as violations of the property
    if model_m:
        shape = [m for m in model_m if m["impl"].startswith("shape|")]
        worst = min(shape or model_m, key=lambda m: len(m["case"]))
        what = ("the token forest of the real meta-parser violates the shape invariant assumed by the theorems" if shape else
                "correspondence broken: parse_and_optimize differs from coq/Front (flags %s)" % flags)
        if esc_found:
            fail = min(esc_found, key=lambda m: len(m["case"]))
            res.violation("%s on `%s`: impl `%s` vs model `%s` (%d such cases); the search that started from the disagreeing texts found a text on which the "
                          "property itself fails: %s on `%s`" % (what, case_text(worst["case"])[:200], worst["impl"][:200], worst["expected"][:200], len(model_m),
                                                                 fail["impl"][:200], case_text(fail["case"])[:300]),
                          {"theorem_or_correspondence": "C09 correspondence: impl vs extracted PV.Front.Frontend / shape_ok; C09 oracle on the derived text",
                           "text": case_text(fail["case"]), "impl": fail["impl"], "disagreeing_text": case_text(worst["case"]),
                           "disagreeing_impl": worst["impl"], "model": worst["expected"], "flags": flags})
        else:
            res.violation("%s on `%s`: impl `%s` vs model `%s` (%d such cases); no violation of the property itself was found for it "
                          "(escalated search: %d texts derived from %d disagreeing ones, all answered with rules or located errors in time)" % (
                what, case_text(worst["case"])[:200], worst["impl"][:200], worst["expected"][:200], len(model_m),
                esc_stats.get("evaluations", 0), esc_stats.get("escalated_from_texts", 0)),
                {"theorem_or_correspondence": "C09 correspondence: impl vs extracted PV.Front.Frontend / shape_ok", "text": case_text(worst["case"]),
                 "impl": worst["impl"], "model": worst["expected"], "flags": flags}, no_failing_input=True)
    for m in other_m[:3]:
        res.violation("harness failure: " + m["impl"], {"theorem_or_correspondence": "C09 correspondence (run)", "log": m["expected"]}, no_failing_input=True)
    if not thm["ok"]:
        res.violation("proof obligation no longer checks: " + "; ".join(thm["problems"]),
                      {"theorem_or_correspondence": "coq/props/C09.v", "log": thm["log"][-3000:]}, no_failing_input=not by_class)

    res.coverage.update({
        "evaluations": stats.get("evaluations", 0) + xstats.get("evaluations", 0) + esc_stats.get("evaluations", 0),
        "distinct_nontrivial": stats.get("distinct_nontrivial", 0) + xstats.get("distinct_nontrivial", 0) + esc_stats.get("distinct_nontrivial", 0),
        "rule": "texts: the 21 shipped grammars; token-level deletion / duplication / replacement mutants and byte damage of them (sampled, fewer for long "
                "files), prefixes; counts {0..65536, > u32::MAX, huge} in {n} {n,} {,n} {m,n}; PEEK indices around i32 limits and huge; 40 escape forms in "
                "strings / ^strings / char ranges / PUSH_LITERAL; unterminated, unbalanced, leading `|`, tags, NUL, BOM, non-ASCII; identifiers and "
                "literals up to 10^5 (10^6 thorough) bytes; nesting to depth 300 (1000 thorough) on a 1 GiB and an 8 MiB stack; word soup, rule soup, "
                "random scalar values, expression soup; damaged printed random grammars; grammars around one cycle of rule references (direct / indirect, "
                "length 1-4, through every operator the left-recursion walk enters or through references and choice alternatives only, entered from rules "
                "that sort before / between / after the members, with `@{ (!x ~ ANY)* }` rules over members and entries, callers under repetitions, "
                "WHITESPACE / COMMENT on a member; one in eight legal). One evaluation = one text through the real parse_and_optimize "
                "(+ renderings, docs::consume, meta token forest) and, when the meta-parse succeeds, through the extracted model. non-trivial = "
                "distinct text whose outcome is not `rules`",
        "exhaustive": False,
        "samples": ['a = { "\\u{D800}" }', "a = { PEEK[99999999999..] }", 'a = { ( | "a" ) }', 'a = { "x"{4294967294,} }', "a = { ((((\"x\")))) }"],
        "runner_cases": stats.get("cases", 0) + xstats.get("cases", 0),
        "modelled_cases": stats.get("modelled", 0) + xstats.get("modelled", 0),
        "shape_checked_on_real_forests": stats.get("shape_checked", 0) + xstats.get("shape_checked", 0),
        "meta_parse_failed": stats.get("parse_failed", 0) + xstats.get("parse_failed", 0),
        "mismatches": len(mism),
        "implementation_state": vals,
        "model_flags": flags,
        "classes": {k: v for k, v in stats.items() if str(k).startswith("class_")},
        "kinds": {k: v for k, v in stats.items() if str(k).startswith("kind_")},
        "extras_classes": {k: v for k, v in xstats.items() if str(k).startswith("class_")},
        "exponential_growth": growth,
        "polynomial_scaling_ms": scale_rows,
        "panic_classes_found": {k: len(v) for k, v in by_class.items()},
        "ladders": {"ladders": stats.get("ladders", 0), "evaluations": stats.get("kind_lad", 0), "slow_or_killed": stats.get("ladders_slow", 0),
                    "slow_judged_outside_known_class": stats.get("slow_judged_outside_known_class", 0), "failing_observations": len(lad_found),
                    "slow_left_to_known_class": stats.get("slow_left_to_known_class", 0), "model_comparisons_given_up": stats.get("ladder_model_unfinished", 0),
                    "processes_stopped_early": stats.get("ladders_stopped_early", 0),
                    "rule": "chains s1 .. sn (n = 8, 14, 20, 28, 40; deepened only while the answer comes in time, the depth jumps to where the extrapolated "
                            "time passes the limit once the time multiplies per rule) in which every rule mentions the next one 2 or 3 times through one "
                            "of 22 links (sequence with / without separators, choice, choice inside sequence, optional, `*`, `+`, counts, `&`, `!`, PUSH, "
                            "PUSH .. POP) or two alternating links; 12 leaves (failing, non-failing, non-progressing, stack); used from 20 places (under "
                            "`*` `+` `?` `{2,}`, first / last choice alternative, first / second in a sequence, inside repeated sequences and choices, "
                            "under `!` `&` PUSH, as WHITESPACE / COMMENT, inside atomic skip-until rules, or alone); modifiers, rule order, DROP half-way; "
                            "every link once with a literal leaf first, then random combinations; each process stops after a few slow ladders. "
                            "A slow / killed ladder is judged by the extracted model of the unmodified front end on the same token forest: "
                            "<= 10^5 validator steps and an answer of the whole model within 0.5 s = outside C09-validator-exponential = violation; "
                            "otherwise left to the registered class (counted)"},
        "escalated_search": ({"ran": True, "from_disagreeing_texts": esc_stats.get("escalated_from_texts", 0), "derived_evaluations": esc_stats.get("evaluations", 0),
                              "kinds": {k: v for k, v in esc_stats.items() if str(k).startswith("kind_")},
                              "classes": {k: v for k, v in esc_stats.items() if str(k).startswith("class_")},
                              "failing_observations": len(esc_found), "slow_many_rule_texts_left_to_known_class_by_the_model": len(esc_slow),
                              "stopped_early": esc_stats.get("escalated_stopped_early", 0),
                              "rule": "per disagreeing text: the rules at the locations the two sides disagree on, what they refer to, then other rules (at most "
                                      "10); for each the slice of the text it reaches, the first-position skeleton of that slice (references, choices, strings) "
                                      "and the whole text, each extended by atomic skip-until rules over it, callers with it in first position / under every "
                                      "repetition and predicate named to sort first and last, both, WHITESPACE / COMMENT; then token mutants and byte damage; "
                                      "oracle = the property on the real code in a worker (panic, abort, no answer in 6 s, > 2 s, unlocated / unrenderable error); a slow text with more than 16 rules is judged when the extracted model of the unmodified front end is cheap on it"}
                             if first_model else {"ran": False, "why": "implementation and model agreed on every case"}),
    })
    res.assumptions = ["the token forest of the meta-parser has the shape of grammar.pest (assumed by the theorems, checked on every real parse of the run)",
                       "BUILTINS = the 19 fixed names + pest::unicode::unicode_property_names() (passed to the model by the harness)",
                       "harness built with debug-assertions and overflow-checks",
                       "TIMEOUT threshold 2 s per text; the generators keep polynomially expensive texts (long chains, nested counts) small"]
    return res.finish()
