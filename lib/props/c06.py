"""C06 - validation guarantees termination and accepts well-formed grammars."""
import shlex
from common import *

META = {
    "property_id": "C06",
    "level": "proof",
    "technique": "Coq proof over an executable Gallina model of meta/src/validator.rs (is_non_failing / is_non_progressing with their traces, "
                 "validate_repetition / choices / whitespace_comment, left_recursion / check_expr, the name checks of validate_pairs, the reader's "
                 "zero-count errors) and over Layer S (Peg/Spec.eval): soundness of the nullable over-approximation by induction on the evaluation "
                 "fuel, completeness of the left-recursion DFS on duplicate-free call chains, and a well-founded induction on (remaining input, rules "
                 "not yet on the chain of calls made at the current position, expression); the model is tied to the code by differential runs of the "
                 "extracted model against the real pest_meta::parse_and_optimize, and the termination contract is observed directly on the real "
                 "pest_vm in child processes",
    "text": "coq/props/C06.v (all closed under the global context). C06_statement cfg = C06_termination cfg /\\ C06_acceptance cfg. "
            "(<=) C06_acceptance_any: for the validator as it is and as repaired, a grammar whose names are well-formed, whose counts are legal and in "
            "which every unbounded-repetition body, the WHITESPACE/COMMENT bodies and every non-final alternative start with a character, and in "
            "which no cycle of rule references consists of unguarded references only, is accepted (validate = []). (=>) is FALSE for the code as it "
            "is: C06_termination_refuted / C06_witness_{opt,neg,exact,mutual} exhibit accepted grammars on which Layer S returns SFuel for EVERY "
            "fuel (a = { a? ~ \"x\" }, a = { !a ~ \"x\" }, a = { a{2} }, a = { b ~ \"x\" } b = { a? }); each is replayed on the real pest_vm (native "
            "stack overflow in a child process). With fixes/C06-1 (check_expr descends into the left side of a sequence always, into the right side "
            "when the left side may match empty, and into {n} / {n,} / {,n} / {m,n} / #tag) and fixes/C06-2 (filter_map_top_down descends into node "
            "tags; grammar-extras witness C06_witness_tag: r = { #t = (\"\"*) }) the theorem C06_termination_fixed holds: validate cfg_fixed G = [] "
            "and no stack-reading built-in (PEEK, POP, DROP, PEEK_ALL, POP_ALL, PEEK[..]; PUSH is allowed) imply that from every rule and on every "
            "input some fuel suffices, for both feature sets - outside one decidable class, ws_reaches_nonatomic G (WHITESPACE / COMMENT reach a `!` "
            "rule through references), for which C06_termination_fixed_refuted / C06_witness_ws show that the repaired validator still accepts a "
            "diverging grammar (r = { \"x\" ~ \"y\" } WHITESPACE = { n } n = !{ \"\" ~ \" \" }: the implicit skip inside the `!` rule calls WHITESPACE "
            "again; check_expr does not know implicit calls). Every run: the verdict and the multiset of error kinds (left-recursion chains included) "
            "of the real parse_and_optimize are compared with the extracted model (flags chosen by probing the tree) on a near-miss stream (left "
            "recursion through every operator, directly and through 2-3 rules of every type; every nullable / non-failing body under every "
            "repetition, as WHITESPACE / COMMENT, as alternative; repetitions away from the left edge whose body leads back to the enclosing rule "
            "through references while that rule can match empty through a later alternative / ? / look-ahead; sequences of two or three "
            "non-progressing elements of different kinds - look-aheads, empty literals of both kinds, SOI / EOI, PUSH(\"\"), ?, *, rules, with "
            "grammar-extras also tagged in every position - as repetition body, WHITESPACE / COMMENT body and in front of a recursive call; "
            "name and count errors; "
            "implicit-skip recursion) and on random recursive grammars; when the verdicts differ, the differing grammars are varied (escalated "
            "search, see coverage.escalated_search) and the accepted variants are run as well; "
            "every accepted grammar without stack built-ins is run by the real pest_vm from every rule on all inputs up to a length bound in a child "
            "process (stack overflow = signal, call limit, CPU budget per parse) and any non-termination is a contract violation, cross-checked "
            "against Layer S.",
    "note": "Trusted: Coq kernel; extraction (ExtrOcamlBasic only); harness, runner, this driver; Layer S as the meaning of 'parsing terminates' "
            "(tied to pest_vm by the C01 correspondence, and here on every accepted generated grammar). kw / builtin name sets are parameters of the "
            "theorems; the runs use the lists translated from validator.rs plus pest::unicode::unicode_property_names(). The budget of one child "
            "parse is CPU time (0.4 s) besides the call limit: repeat/optional absorb the refusal produced by the call limit (the C12 defect), so the "
            "limit alone would hide non-terminating repetitions.",
    "design_ref": "DESIGN.md section 3, C06; section 4 row 2",
    "coq_targets": ["props/C06.vo", "Extract/ValidExtract.vo"],
    "bins": ["c06"],
}

CLASS = {
    "leftrec": ("check_expr (meta/src/validator.rs) follows only the right side of a sequence whose left side may match empty and does not look "
                "into {n} / {n,} / {,n} / {m,n} / #tag: left recursion through `a? ~`, `!a ~`, `a{2}`, ... is accepted",
                "C06_termination_refuted, C06_witness_opt/neg/exact/mutual", "fixes/C06-1-left-recursion-check-expr.patch"),
    "tagrep": ("ParserNode::filter_map_top_down (meta/src/parser.rs) does not descend into node tags (grammar-extras): repetitions and choices "
               "under a tag are never validated", "C06_witness_tag", "fixes/C06-2-node-tag-traversal.patch"),
    "missed-check": ("accepted although the repaired model rejects it", "C06_termination_refuted", "fixes/C06-1-left-recursion-check-expr.patch"),
    "ws": ("the implicit WHITESPACE / COMMENT skip re-enters itself through a non-atomic (`!`) rule reached from WHITESPACE / COMMENT; "
           "check_expr knows nothing about implicit calls", "C06_termination_fixed_refuted, C06_witness_ws", None),
    "other": ("an accepted grammar without stack built-ins does not terminate and is in none of the analysed classes", None, None),
    "acceptance": ("a grammar that satisfies the hypotheses of C06_acceptance (well-formed names, legal counts, every unbounded-repetition body, "
                   "WHITESPACE / COMMENT body and non-final alternative starts with a character, no cycle of unguarded references) is rejected",
                   "C06_acceptance_any", None),
}
KNOWN_CLASS_ID = {"ws": "C06-ws-nonatomic"}


def names_file(hbin):
    """PEST_KEYWORDS and BUILTINS translated from validator.rs; Unicode property names from the real pest."""
    src = open(os.path.join(REPO, "meta", "src", "validator.rs")).read()

    def arr(name):
        m = re.search(r"static %s: LazyLock<HashSet<&'static str>> = LazyLock::new\(\|\| \{\s*\[(.*?)\]" % name, src, re.S)
        return re.findall(r'"([^"]*)"', m.group(1)) if m else []
    kw, bi = arr("PEST_KEYWORDS"), arr("BUILTINS")
    rc, out = sh("%s names" % hbin, timeout=60)
    un = out.split() if rc == 0 else []
    os.makedirs(BUILD, exist_ok=True)
    tag = hashlib.sha1(REPO.encode()).hexdigest()[:8]
    path = os.path.join(BUILD, "c06_names_%s.txt" % tag)
    write_if_changed(path, " ".join(kw) + "\n" + " ".join(bi + un) + "\n")
    return path, len(kw), len(bi), len(un)


def probe(hbin):
    rc, out = sh("%s probe" % hbin, timeout=60)
    vals = {}
    for line in out.split("\n"):
        if line.startswith("#PROBE"):
            for kv in line.split("\t")[1:]:
                k, v = kv.split("=")
                vals[k] = v
    return vals


def plan(tier, seed):
    if tier == "quick":
        return {"": ["nearmiss 4", "random 1500 %d 4" % (seed * 10 + 1), "random 1500 %d 3" % (seed * 10 + 2)],
                "extras": ["nearmiss 3", "random 1200 %d 3" % (seed * 10 + 3)]}, 4
    return {"": ["nearmiss 5"] + ["random 40000 %d 5" % (seed * 100 + i) for i in range(9)],
            "extras": ["nearmiss 5"] + ["random 40000 %d 5" % (seed * 100 + 50 + i) for i in range(5)]}, 5


def run_cases(jobs):
    """jobs: list of (label, command line).  Returns (mismatches, stats, failures)."""
    outs = run_pipeline([c for _, c in jobs])
    mism, stats = [], {}
    for (rc, out), (label, c) in zip(outs, jobs):
        m, s, other = parse_runner_output(out)
        if rc != 0 or "mismatches" not in s or "evaluations" not in s:
            mism.append({"kind": "harness", "case": label, "impl": "pipeline `%s` failed rc=%s" % (label, rc), "expected": out[-800:]})
        for x in m:
            x["job"] = label
        mism += m
        for k, v in s.items():
            stats[k] = stats.get(k, 0) + v if isinstance(v, int) else v
    return mism, stats


def escalate(differing, pipe, seed, maxlen):
    """differing: MISMATCH records of kind `model` (case V|x|sexp).  Returns the statistics of the search plus the `spec` mismatches found."""
    def signature(m):
        strip = lambda v: ",".join(sorted(set(k.split(":")[0] for k in v.replace("err:", "").split(","))))
        return (strip(m["impl"]), strip(m["expected"]))
    groups = {}
    for m in differing:
        groups.setdefault((m["case"].split("|")[1], signature(m)), []).append(m)
    for ms in groups.values():
        ms.sort(key=lambda m: (len(m["case"]), m["case"]))
    picked = []        # round robin over the kinds of difference, smallest grammars first
    while len(picked) < 48 and any(groups.values()):
        for key in sorted(groups):
            if groups[key] and len(picked) < 48:
                picked.append(groups[key].pop(0))
    out = {"starting_points": len(picked), "kinds_of_difference": len(groups), "variants_judged": 0, "variants_accepted": 0, "vm_runs": 0,
           "nonterminating_observed": 0, "wellformed_rejected": 0, "mismatches": [], "classes": {},
           "variants": "the pieces of each differing grammar on their own (repetitions, WHITESPACE / COMMENT bodies, tagged expressions, prefixes of "
                       "references; references unfolded 0-2 levels) as repetition body / WHITESPACE / COMMENT / prefix of a recursive call, then "
                       "single changes, the directed product and random chains of changes of the whole grammar; both feature sets",
           "inputs": "all strings over {x, y, space} up to length %d plus the strings up to length 3 that use a letter of the grammar's own "
                     "literals / ranges / character classes" % maxlen}
    os.makedirs(BUILD, exist_ok=True)
    jobs = []
    for feat, x in (("", "0"), ("extras", "1")):
        gs = [m["case"].split("|", 2)[2] for m in picked if m["case"].split("|")[1] == x]
        if not gs:
            continue
        path = os.path.join(BUILD, "c06_escalate_%s_%d_%s.txt" % (hashlib.sha1(REPO.encode()).hexdigest()[:8], os.getpid(), x))
        with open(path, "w") as f:
            f.write("\n".join(gs) + "\n")
        jobs.append(("escalate%s" % (" [grammar-extras]" if feat else ""), pipe(feat, "escalate %s %d %d" % (shlex.quote(path), min(maxlen, 4), seed)), path))
    outs = run_pipeline([c for _, c, _ in jobs])
    for (rc, txt), (label, c, path) in zip(outs, jobs):
        try:
            os.remove(path)
        except OSError:
            pass
        m, s, other = parse_runner_output(txt)
        if rc != 0 or "evaluations" not in s:
            out.setdefault("failed_jobs", []).append("%s rc=%s %s" % (label, rc, txt[-300:]))
            continue
        out["variants_judged"] += s.get("evaluations", 0)
        out["variants_accepted"] += s.get("accepted", 0)
        out["vm_runs"] += s.get("vm_runs", 0)
        out["nonterminating_observed"] += s.get("nonterminating", 0)
        for k, v in s.items():
            if str(k).startswith("class/") and isinstance(v, int):
                out["classes"][k] = out["classes"].get(k, 0) + v
        out["wellformed_rejected"] += s.get("class/acceptance", 0)
        for x in m:
            if x["kind"] == "spec":       # only real violations of the property; further verdict differences are more of the same
                x["job"] = label
                out["mismatches"].append(x)
    out["failing_inputs_found"] = len(out["mismatches"])
    return out


def case_parts(case):
    """V|x|sexp   or   T|x|maxlen|sexp"""
    p = case.split("|")
    if p[0] == "V":
        return {"kind": "V", "extras": p[1] == "1", "grammar": "|".join(p[2:])}
    return {"kind": "T", "extras": p[1] == "1", "maxlen": p[2], "grammar": "|".join(p[3:])}


def run(tier, seed, replay=None):
    res = Result("C06", tier, seed, "proof")
    thm = check_theorems("C06")
    proof_coverage(res, thm, "make -C coq props/C06.vo (coqc 8.16.1, full .vo build) + Print Assumptions", BASE_TRUST + [
        "model of meta/src/validator.rs written by hand (coq/Valid/Validator.v): Vec traces as lists, HashMap views as find_rule, every fuel "
        "exhaustion / panic site an explicit outcome (VFuel / VPanic never occur: Nullable.np_fuel_ok, Accept.check_total)",
        "Layer S (coq/Peg/Spec.v) as the definition of termination of parsing",
    ])
    rc, out = coq_make(["Extract/ValidExtract.vo"])
    if rc != 0:
        thm["ok"] = False
        thm["problems"].append("extraction build failed")
        thm["log"] = out
    bins = {}
    for feat in ("", "extras"):
        brc, bout, bdir = harness_build(["c06"], features=feat)
        if brc != 0:
            res.violation("harness does not build against the repository (correspondence C06 cannot run, features `%s`)" % feat,
                          {"theorem_or_correspondence": "C06 correspondence (build)", "log": bout[-3000:]}, no_failing_input=True)
            return res.finish()
        bins[feat] = os.path.join(bdir, "c06")
    for attempt in range(4):
        orc, oout, runner = ocaml_build("c06_runner", ["valid_model"])
        if orc == 0:
            break
        time.sleep(1 + attempt)
    if orc != 0:
        res.violation("OCaml runner does not build", {"theorem_or_correspondence": "C06 extraction", "log": oout[-3000:]}, no_failing_input=True)
        return res.finish()

    pr = probe(bins[""])
    prx = probe(bins["extras"])
    fix_lr = pr.get("fix_leftrec", "0")
    fix_tag = prx.get("fix_tag", "0")
    if fix_tag not in ("0", "1"):
        fix_tag = "0"
    flags = fix_lr + fix_tag
    names, nkw, nbi, nun = names_file(bins[""])
    log("C06: implementation state (probe): check_expr %s, filter_map_top_down %s -> model flags %s; names: %d keywords, %d built-ins, %d Unicode properties" % (
        "repaired" if fix_lr == "1" else "as shipped", "repaired" if fix_tag == "1" else "as shipped", flags, nkw, nbi, nun))

    def pipe(feat, cmd):
        return "%s %s | %s %s %s" % (bins[feat], cmd, runner, flags, names)

    if replay:
        rj = json.load(open(replay))
        cp = case_parts(rj.get("case", "V|0|"))
        feat = "extras" if cp["extras"] else ""
        rc, out = sh(pipe(feat, "one %s %s" % (shlex.quote(cp["grammar"]), cp.get("maxlen", "4"))), timeout=300)
        m, s, other = parse_runner_output(out)
        log("replay: %d mismatches" % len(m))
        for x in m[:8]:
            log("  %s %s\n    impl=%s\n    expected=%s" % (x["kind"], x["case"][:300], x["impl"][:300], x["expected"][:300]))
        for l in other[:6]:
            log("  " + l[:300])
        bad = [x for x in m if x["kind"] in ("spec", "sem", "model")]
        if bad:
            res.violation("replayed case still fails (%s): %s" % (bad[0]["kind"], bad[0]["impl"][:200]), {"case": rj.get("case", "")})
        return res.finish()

    corpus = []
    cpath = os.path.join(ROOT, "corpus", "C06.txt")
    if os.path.exists(cpath):
        corpus = [l.rstrip("\n") for l in open(cpath) if l.strip() and not l.startswith("#")]
    pl, maxlen = plan(tier, seed)
    jobs = []
    for c in corpus:       # lines: <features: - | extras>\t<grammar sexp>
        f, g = c.split("\t", 1)
        jobs.append(("corpus " + g[:60], pipe("extras" if f == "extras" else "", "one %s %d" % (shlex.quote(g), min(maxlen, 4)))))
    for feat, cmds in pl.items():
        for c in cmds:
            jobs.append(("%s%s" % (c, " [grammar-extras]" if feat else ""), pipe(feat, c)))
    mism, stats = run_cases(jobs)

    # Escalated search.  The verdict of the real front end differs from the model of validator.rs: the property itself is about behaviour
    # (an accepted grammar terminates on every input; a well-formed grammar is accepted), so the differing grammars are taken as starting
    # points, taken apart (every repetition, WHITESPACE / COMMENT body, tagged expression and prefix of a reference on its own in a one-rule
    # grammar, references replaced by the rule bodies 0-2 levels deep), varied (every single change, the directed product "repetition operator x way back to the enclosing rule x something
    # consuming in front x enclosing rule nullable through a later alternative / ? / look-ahead", random chains of changes), judged by
    # the real front end again and every accepted variant is run by the real pest_vm in child processes on inputs over x, y, space and
    # the letters of its own literals.  A variant that does not terminate (or a well-formed one that is rejected) is the failing input.
    escalation = None
    differing = [m for m in mism if m["kind"] == "model" and m["case"].startswith("V|")]
    already = any(m["kind"] == "spec" and "class=ws" not in m["expected"] for m in mism)     # the regular stream has a failing input already
    if differing and (not already or os.environ.get("C06_FORCE_ESCALATION")):
        escalation = escalate(differing, pipe, seed, maxlen)
        mism += escalation.pop("mismatches")
        for k, v in escalation.pop("classes").items():
            stats[k] = stats.get(k, 0) + v
        log("C06: escalated search from %d differing grammars: %d variants judged, %d accepted and run (%d parses), %d do not terminate, "
            "%d well-formed ones rejected" % (escalation["starting_points"], escalation["variants_judged"], escalation["variants_accepted"],
                                              escalation["vm_runs"], escalation["nonterminating_observed"], escalation["wellformed_rejected"]))

    known = {f.get("class"): f for f in known_findings("C06") if f.get("status") == "known"}
    by = {}
    for m in mism:
        if m["kind"] == "spec":
            mm = re.search(r"class=([a-z+-]+)", m["expected"])
            key = ("spec", mm.group(1) if mm else "other")
        else:
            key = (m["kind"], "")
        by.setdefault(key, []).append(m)

    spec_classes = set()
    for (kind, cls), ms in sorted(by.items()):
        if kind != "spec":
            continue
        worst = min(ms, key=lambda m: (len(m["case"]), m["case"]))
        cp = case_parts(worst["case"])
        desc, coqthm, patch = CLASS.get(cls, CLASS["other"])
        if cls == "missed-check" and fix_lr == "1":
            # check_expr is repaired already: the real validator misses a check that the (repaired) model makes - not the known defect
            desc, coqthm, patch = "accepted although the model of the validator rejects it", "C06_termination_fixed (its hypothesis validate = [] is what the real code gets wrong)", None
        w = worst["impl"].split(" ")
        count = stats.get("class/" + cls, len(ms))
        rep = {"theorem_or_correspondence": "C06 contract on the real code: accepted + no stack built-ins => pest_vm terminates from every rule on every "
                                            "input (observed in a child process)" + (", Coq: " + coqthm if coqthm else ""),
               "case": worst["case"], "class": cls, "grammar_sexp": cp["grammar"], "features": "grammar-extras" if cp["extras"] else "default",
               "observation": worst["impl"], "rule": w[1] if len(w) > 1 else "", "input_hex": w[2] if len(w) > 2 else "",
               "observation_legend": "overflow = the child died on a signal (native stack overflow); budget = one parse used more than 0.4 s of CPU; "
                                     "limit = pest reported `call limit reached` (100M calls)",
               "cases_in_class": count, "suggested_fix": patch}
        if cls == "acceptance":
            spec_classes.add(cls)
            rep["theorem_or_correspondence"] = "C06 (<=) on the real code: the hypotheses of C06_acceptance hold => parse_and_optimize accepts"
            res.violation("a well-formed grammar is rejected by the real front end (%s); smallest witness %s [%s]: verdict `%s` (%d cases)" % (
                desc, cp["grammar"], rep["features"], worst["impl"], count), rep)
            continue
        kid = KNOWN_CLASS_ID.get(cls)
        if kid and kid in known:
            res.known_finding("class=%s witness=%s -> %s (%d cases)" % (kid, cp["grammar"][:200], worst["impl"], count))
        else:
            spec_classes.add(cls)
            res.violation("an accepted grammar without stack built-ins does not terminate on the real pest_vm (class `%s`: %s); smallest witness %s "
                          "[%s], %s (%d cases in this class)" % (cls, desc, cp["grammar"], rep["features"], worst["impl"], count), rep)
    for (kind, cls), ms in sorted(by.items()):
        if kind == "spec":
            continue
        worst = min(ms, key=lambda m: (len(m["case"]), m["case"]))
        if kind == "model":
            res.violation("correspondence broken: the verdict of the real parse_and_optimize differs from coq/Valid/Validator.v (flags %s) on %s: "
                          "impl `%s` vs model `%s` (%d cases)" % (flags, worst["case"], worst["impl"][:200], worst["expected"][:200], len(ms)),
                          {"theorem_or_correspondence": "C06 correspondence: impl vs extracted PV.Valid.Validator.validate", "case": worst["case"],
                           "impl": worst["impl"], "model": worst["expected"], "searched": stats}, no_failing_input=not spec_classes)
        elif kind == "sem":
            res.violation("termination on the real pest_vm and in Layer S disagree on %s: impl `%s`, %s" % (worst["case"], worst["impl"], worst["expected"]),
                          {"theorem_or_correspondence": "C06 / C01: pest_vm vs Peg.Spec.eval (termination)", "case": worst["case"],
                           "impl": worst["impl"], "spec": worst["expected"]})
        elif kind == "thm":
            res.violation("a grammar accepted by the repaired model, stack-free and outside the known class runs out of fuel in Layer S (would "
                          "contradict C06_termination_fixed: runner or extraction fault, or fuel too small): %s %s" % (worst["case"], worst["impl"]),
                          {"theorem_or_correspondence": "C06 internal consistency", "case": worst["case"], "impl": worst["impl"]}, no_failing_input=True)
        else:
            res.violation("harness failure: " + worst["impl"], {"theorem_or_correspondence": "C06 correspondence (run)", "log": worst["expected"]},
                          no_failing_input=True)
    if tier != "quick" and thm["ok"]:
        crc, cout = coqchk("C06")
        res.coverage["coqchk"] = "ok" if crc == 0 else "FAILED"
        if crc != 0:
            thm["ok"] = False
            thm["problems"].append("coqchk rejected PV.props.C06")
            thm["log"] = cout
    if not thm["ok"]:
        res.violation("proof obligation no longer checks: " + "; ".join(thm["problems"]),
                      {"theorem_or_correspondence": "coq/props/C06.v", "log": thm["log"][-3000:]}, no_failing_input=not spec_classes)

    res.coverage.update({
        "evaluations": stats.get("evaluations", 0),
        "distinct_nontrivial": stats.get("distinct_nontrivial", 0),
        "rule": "one evaluation = one generated grammar through the real parse_and_optimize (verdict + multiset of error kinds compared with the model); "
                "non-trivial = distinct grammar with recursion or a repetition / WHITESPACE / COMMENT rule together with a construct that may match "
                "empty (?, *, predicates, empty literal, {0,..}, {,n}, SOI/EOI, PUSH_LITERAL). vm_runs = (rule, input) parses of accepted stack-free "
                "grammars by the real pest_vm in child processes, all inputs over {x, y, space} up to length %d plus, for a grammar with other letters "
                "in its literals / ranges / character classes (at most 3, both cases of case-insensitive literals), all strings up to length 3 "
                "that use such a letter" % maxlen,
        "exhaustive": False,
        "vm_runs": stats.get("vm_runs", 0),
        "accepted": stats.get("accepted", 0),
        "nonterminating_observed": stats.get("nonterminating", 0),
        "runner_cases": stats.get("cases", 0),
        "theorem_tested_on": stats.get("thm_checked", 0),
        "acceptance_hypotheses_held_on": stats.get("acceptance_checked", 0),
        "mismatches": len(mism),
        "implementation_state": {"fix_leftrec": fix_lr, "fix_tag": fix_tag},
        "classes": {k: v for k, v in stats.items() if str(k).startswith("class/")},
        "escalated_search": escalation if escalation is not None else "not run (no difference between the real verdicts and the model)",
        "samples": ["V|0|(a n (seq (opt (id a)) (str 78)))", "T|0|4|(a n (seq (id b) (str 78)));(b n (opt (id a)))",
                    "V|0|(r n (seq (rep (cho (str -) (str 78))) (str 78)))"] + corpus[:3],
    })
    res.assumptions = ["inputs of the termination runs: all strings over {x, y, space} up to the length bound (plus short strings with up to 3 letters taken "
                       "from the grammar's own literals) - the theorems are for arbitrary byte strings",
                       "generated grammars use literals over x, y, space, the built-ins ANY / ASCII_* / NEWLINE / SOI / EOI / LETTER and 1-5 rules",
                       "stack-reading built-ins (PEEK, POP, DROP, PEEK_ALL, POP_ALL, PEEK[..]) are outside the property; grammars using them are judged "
                       "(verdict compared) but not run"]
    return res.finish()
