"""C14 - the bootstrapped grammar parser is the parser its grammar file denotes."""
import importlib.util
from common import *

META = {
    "property_id": "C14",
    "level": "proof",
    "technique": "translation validation + Coq proof: the checked-in meta/src/grammar.rs is regenerated (bootstrap invocation of the real "
                 "generator, byte comparison) and read back (syn reader) into a closure table that is regenerated into Coq on every run; "
                 "Coq checks that every function of it is gen_rule/gen_skip/built-in of the generator model for the optimized meta-grammar "
                 "the real optimizer printed, that the meta-grammar is in class H, and instantiates the C02 theorem; differential runs of "
                 "the checked-in parser against pest_vm and the extracted model on grammars, near-miss grammars and fragments, for the top "
                 "rule and every sub-rule",
    "text": "Theorem C14_checked_in_parser_eq_vm (coq/props/C14.v, closed under the global context): the optimized meta-grammar printed by "
            "the current optimizer is in class H; the closure table read from the checked-in meta/src/grammar.rs consists, function by "
            "function, of gen_rule / gen_skip / the built-ins of the generator model for that grammar (enum, all_rules and the start "
            "dispatch included, every called path resolves); hence for every rule of the meta-grammar, every text, either error-detail "
            "setting and all fuels that suffice, running the checked-in closures and running the VM on the current optimizer's output "
            "give the same token queue / the same error position, positives and negatives (instance of C02). Every run also: regenerates "
            "grammar.rs with the bootstrap invocation and compares it byte for byte with the checked-in file; reads the freshly generated "
            "token stream and validates it the same way; cross-checks the independent translation of grammar.pest against the AST "
            "pest_meta reads (and, when the C05 development builds, proves in Coq that the Gallina optimizer maps one to the printed "
            "optimized rules); runs pest_meta::parser::parse against pest_vm on parse_and_optimize(grammar.pest) and against the extracted "
            "model on the shipped .pest files, generated grammars, mutated/truncated grammars and short fragments, comparing acceptance, "
            "token forest and error; the checked-in parser is run through its public entry pest_meta::parser::parse and through the generated PestParser::parse "
            "it wraps (any transformation of the text, the spans or the error in between is a disagreement; so is a token tree that refers to another input "
            "than the caller's), top-rule texts also through pest_meta::parse_and_optimize; the texts put the characters such a layer typically strips or "
            "normalises (byte order mark, line-break conventions, NUL, Unicode blanks, characters of every UTF-8 width) around and inside spellings of every rule; "
            "the token stream the in-tree derive_parser returns for grammar.pest is compiled as source on every run and is the "
            "third leg of every comparison (thorough also compiles a #[derive(Parser)] of grammar.pest as a fourth). When a structural stage or the proof "
            "breaks without a failing text, the rules pinpointed (token-level function diff of the regenerated grammar.rs, DIFF lines of the closure "
            "comparison) are searched: spellings of the rule derived from the grammar (every alternative, every repetition count from min-1 to max+1), "
            "embedded in every calling rule up to the top rule, the grammar's own trivia at every position, all short strings over the rule's literals. "
            "The differential legs (checked-in parser vs pest_vm vs a freshly generated parser) are run for both ways the crates can be built: default features and "
            "the cargo feature grammar-extras (own harness build, own fresh parser, the fresh token stream also validated structurally against the generator model "
            "for the rules that build's optimizer prints). The legs share one process and pest has process-wide settings: around every call of a public entry "
            "(parser::parse, PestParser::parse, Vm::parse, validate_pairs, consume_rules, optimize, parse_and_optimize) on every text the settings a new parser "
            "state sees (call limit, error detail) must be what they were, also when the caller had set them; parse_and_optimize must end as its own steps do; "
            "texts of 70 - 300 kB (generated grammars, the shipped grammars with renamed rules, the meta-grammar repeated, a long expression, cut / damaged "
            "copies) are fed after rejected texts; a setting left behind is followed up by a bisection for the text size at which it changes a leg's answer. "
            "The legs are also run under the two switches themselves: with pest::set_error_detail(true) the forest or the error with everything Error::parse_attempts() carries "
            "and the message parse_attempts_error renders must agree for checked-in parser, pest_vm and fresh parser; under pest::set_call_limit the checked-in and the fresh parser "
            "(the same generated code) must have the same budget on every text (smallest limit not refused, answers at and below it), pest_vm is compared far from it. "
            "A disagreement is re-run in a process of its own, alone and then with the texts fed before it, and the replay carries that history.",
    "note": "Trusted: Coq kernel; extraction; the syn reader (strict) and the two python printers of s-expressions as Gallina; VmCompile.v / "
            "Exec.v as models of the VM / ParserState (tied to the code by the differential runs here and by C01/C03). The theorem is about the "
            "closure table read from grammar.rs, not about rustc's compilation of it.",
    "design_ref": "DESIGN.md section 3, C14",
    "coq_targets": ["props/C14.vo", "Extract/GenExtract.vo"],
    "bins": ["c14"],
    "feature_bins": {"extras": ["c14"]},
}


FRESH_CALL_LIMIT = 20000000   # CALL_LIMIT of rust/harness/src/c14_fresh_main.rs.in
LIMITS = []   # texts on which a fresh parser ran into its call limit while the checked-in parser finished (all run_pipes calls of this run)
STAGES = []   # what the targeted search of the last run_pipes call covered (STAGES lines of `c14 target`)


def load(name):
    spec = importlib.util.spec_from_file_location(name, os.path.join(ROOT, "tools", name + ".py"))
    m = importlib.util.module_from_spec(spec)
    spec.loader.exec_module(m)
    return m


def regenerate(hbin):
    """coq/gen/MetaGrammar.v, MetaOpt.v, MetaCheckedIn.v from the repository; returns (read lines dict, problems, x_line)"""
    problems = []
    rc, out = sh("%s read %s" % (hbin, REPO), timeout=300)
    lines = {}
    for l in out.split("\n"):
        p = l.split("\t")
        if p and p[0] in ("A", "O", "T", "F", "TE", "GE"):
            lines.setdefault(p[0], p)
    gen = os.path.join(COQ, "gen")
    xline = ""
    try:
        p2v = load("pest2v")
        text = open(os.path.join(REPO, "meta", "src", "grammar.pest"), encoding="utf-8", newline="").read()
        rules = p2v.parse_grammar(text)
        write_if_changed(os.path.join(gen, "MetaGrammar.v"), p2v.coq_grammar(rules, "meta_grammar", "meta/src/grammar.pest"))
        xline = "X\t" + p2v.sexp_grammar(rules)
    except Exception as ex:
        problems.append("tools/pest2v.py cannot translate meta/src/grammar.pest: %s" % ex)
    try:
        s2v = load("sexp2v")
        if "O" in lines:
            write_if_changed(os.path.join(gen, "MetaOpt.v"), s2v.ogrammar(lines["O"][1], "meta_opt",
                             "the optimized rules printed by pest_meta::optimizer::optimize on meta/src/grammar.pest"))
        if "T" in lines:
            write_if_changed(os.path.join(gen, "MetaCheckedIn.v"), s2v.checked_in(lines["T"][4], "meta/src/grammar.rs"))
    except Exception as ex:
        problems.append("tools/sexp2v.py: %s" % ex)
    return out, lines, problems, xline


def pre_setup():
    rc, out, bdir = harness_build(["c14"])
    if rc == 0:
        regenerate(os.path.join(bdir, "c14"))


if not os.path.exists(os.path.join(COQ, "gen", "MetaCheckedIn.v")):
    try:
        pre_setup()
    except Exception:
        pass


def fresh_dirs(name):
    """(crate dir, target dir) of a scratch crate for this repository (for a copy of the repository: below the shadow harness directory)."""
    if REPO == "/repo":
        return os.path.join(BUILD, name), os.path.join(ROOT, "rust", "target-" + name)
    tag = hashlib.sha1(REPO.encode()).hexdigest()[:8]
    return "/tmp/pvharness-%s/%s" % (tag, name), "/tmp/pvtarget-%s-%s" % (tag, name)


def build_fresh_generated(hbin, name="c14gen"):
    """The third leg of the property: the token stream the IN-TREE pest_generator::derive_parser returns for meta/src/grammar.pest (the
    bootstrap invocation; bootstrap/ itself links the crates.io generator), written out as source and compiled against the
    repository's `pest`.  Returns (exe or None, stage that failed, log).  (`name`: one scratch crate per build of the generator.)"""
    d, tdir = fresh_dirs(name)
    os.makedirs(os.path.join(d, "src"), exist_ok=True)
    rc, src = sh("%s freshgen %s" % (hbin, REPO), timeout=300)
    if rc != 0 or "fn main" not in src:
        return None, "generate", src[-2000:]
    write_if_changed(os.path.join(d, "src", "main.rs"), src)
    write_if_changed(os.path.join(d, "Cargo.toml"),
                     '[package]\nname = "%s"\nversion = "0.0.0"\nedition = "2021"\npublish = false\n\n[workspace]\n\n[dependencies]\n'
                     'pest = { path = "%s/pest" }\n\n[profile.release]\nopt-level = 1\noverflow-checks = true\ndebug-assertions = true\npanic = "unwind"\n'
                     'debug = false\ncodegen-units = 16\n' % (name, REPO.rstrip("/")))
    if not os.path.exists(os.path.join(d, "Cargo.lock")):
        sh("cp %s %s" % (os.path.join(REPO, "Cargo.lock"), os.path.join(d, "Cargo.lock")))
    rc, out = sh("cargo build --release --offline 2>&1", cwd=d, timeout=1500, env={"CARGO_TARGET_DIR": tdir, "RUSTFLAGS": "--cfg %s -Awarnings" % HOOK_CFG})
    if rc != 0:
        return None, "compile", out[-3000:]
    return os.path.join(tdir, "release", name), "", ""


FEATS = ("", "extras")   # the ways the crates can be built that the legs are run for: default features, grammar-extras
FEAT_NAME = {"": "default features", "extras": "cargo feature grammar-extras"}


def build_legs():
    """Harness + freshly generated parser for every feature set, the feature sets in parallel (the same directories and cargo
    invocations as harness_build(["c14"], features=..) of lib/common.py).  {feat: {rc, log, hbin, gen, gstage, glog}}"""
    import threading
    hdir, target = harness_dir()
    if not os.path.exists(os.path.join(hdir, "Cargo.lock")):
        sh("cp %s %s" % (os.path.join(REPO, "Cargo.lock"), os.path.join(hdir, "Cargo.lock")))
    legs = {}

    def one(feat):
        tdir = target + ("-" + feat if feat else "")
        rc, out = sh("cargo build --release --offline --bin c14 %s 2>&1" % ("--features " + feat if feat else ""), cwd=hdir, timeout=1500,
                     env={"CARGO_TARGET_DIR": tdir, "RUSTFLAGS": "--cfg %s -Awarnings" % HOOK_CFG})
        d = {"feat": feat, "rc": rc, "log": out, "hbin": os.path.join(tdir, "release", "c14"), "gen": None, "gstage": "harness", "glog": ""}
        if rc == 0:
            d["gen"], d["gstage"], d["glog"] = build_fresh_generated(d["hbin"], "c14gen" + ("x" if feat else ""))
        legs[feat] = d
    ts = [threading.Thread(target=one, args=(f,)) for f in FEATS]
    for t in ts:
        t.start()
    for t in ts:
        t.join()
    return legs


def setup():
    build_legs()


def tag_of(feat):
    return ("feat=" + feat) if feat else ""


def feat_of(case):
    m = re.search(r" feat=(\S+)", case)
    return m.group(1) if m else ""


PER_CMD = []   # per pipeline of the last run_pipes call: {"cmd", "mism", "stats", "which", "diffs", "stages", "other"}


def run_pipes(cmds, timeout=3000):
    outs = run_pipeline(cmds, timeout=timeout)
    del STAGES[:]
    del PER_CMD[:]
    mism, stats, which, diffs = [], {}, [], []
    for (rc, out), c in zip(outs, cmds):
        m, s, other = parse_runner_output(out)
        if rc != 0 or "mismatches" not in s or "evaluations" not in s:
            m.insert(0, {"kind": "harness", "case": c, "impl": "pipeline `%s` failed rc=%s" % (c[:200], rc), "expected": out[-800:]})
        for i, x in enumerate(m):
            x["pipe"], x["idx"] = len(PER_CMD), i
        mism += m
        w = [l.split("\t", 1)[1] for l in other if l.startswith("WHICH\t")]
        d = [l.split("\t", 1)[1] for l in other if l.startswith("DIFF\t")]
        st = [l.split("\t", 1)[1] for l in other if l.startswith("STAGES\t")]
        which += w
        diffs += d
        STAGES.extend(st)
        for l in other:
            if l.startswith("LIMIT\t"):
                q = l.split("\t")
                LIMITS.append({"kind": "limit", "case": q[1], "impl": q[2] if len(q) > 2 else "", "expected": "Custom call limit reached"})
        for k, v in s.items():
            stats[k] = stats.get(k, 0) + v if isinstance(v, int) else v
        PER_CMD.append({"cmd": c, "mism": m, "stats": s, "which": w, "diffs": d, "stages": st, "other": other})
    return mism, stats, which, diffs


def rerun(leg, cases, timeout=900):
    """The (rule, hex text) cases, in this order, in ONE fresh process of the harness (and the fresh parser of that build downstream):
    (disagreements, LIMIT lines, output without the D lines)."""
    f = os.path.join(BUILD, "c14_seq_%d.txt" % os.getpid())
    with open(f, "w") as fh:
        fh.write("".join("\t".join(c) + "\n" for c in cases))   # (rule, hex text[, switch setting])
    gen_pipe = ("| %s " % leg["gen"]) if leg["gen"] else ""
    rc, out = sh("%s diff %s 0 0 seq %s %s| %s -1 %s" % (leg["hbin"], REPO, f, gen_pipe, os.path.join(BUILD, "c14_runner"), tag_of(leg["feat"])), timeout=timeout)
    m, s, other = parse_runner_output(out)
    try:
        os.remove(f)
    except OSError:
        pass
    shown = "\n".join(l[:600] for l in out.split("\n") if not l.startswith("G\t") and not l.startswith("D\t"))
    LAST_SETTINGS[:] = [x for x in m if x["kind"] == "settings"]
    return [x for x in m if x["kind"] == "spec"], [l for l in other if l.startswith("LIMIT\t")], shown


LAST_SETTINGS = []   # the calls that changed pest's process-wide settings in the last rerun


def read_episodes(path):
    """[(rule, hex, [(rule, hex) fed before])] written by `c14 large`"""
    eps = []
    try:
        for l in open(path):
            p = l.rstrip("\n").split("\t")
            if len(p) >= 3:
                eps.append((p[0], p[1], [] if p[2] == "-" else [tuple(x.split(":", 1)) for x in p[2].split(",")]))
    except OSError:
        pass
    return eps


def case_parts(case):
    m = re.match(r"r=(\S+) in=(\S+)", case)
    return (m.group(1), m.group(2)) if m else ("", "")


def switch_of(case):
    m = re.search(r" switch=(\S+)", case)
    return m.group(1) if m else ""


def against_of(case):
    m = re.search(r"against=(\S+)", case)
    return m.group(1) if m else "vm"


def switch_candidates(m):
    """The concrete settings of pest's switches to re-run a disagreeing case under: `limit:auto` (the legs' budgets differ, or pest_vm
    differs far from the budget) -> the limits at which the two legs answer differently."""
    sw = switch_of(m["case"])
    if sw != "limit:auto":
        return [sw]
    if against_of(m["case"]) == "vm":
        return ["limit:" + x for x in re.findall(r"vmfar=DIFF limit=(\d+)", m["expected"])][:1]
    needs = [int(x) for x in re.findall(r"need=(\d+)", m["impl"] + " " + m["expected"])]
    c = []
    for n in ([min(needs)] if len(set(needs)) > 1 else []) + needs + [n - 1 for n in needs]:
        if n >= 1 and n not in c:
            c.append(n)
    return ["limit:%d" % n for n in c]


def switch_words(sw):
    if sw == "detail":
        return "with pest::set_error_detail(true)"
    if sw.startswith("limit:"):
        return "under pest::set_call_limit(%s)" % sw[6:]
    return ""


def show_hex(h, n=200):
    try:
        t = bytes.fromhex(h).decode("utf-8", "replace") if h != "-" else ""
    except ValueError:
        return h[:n]
    return t if len(t) <= n else "%s .. (%d bytes)" % (t[:n], len(bytes.fromhex(h)))


def run(tier, seed, replay=None):
    res = Result("C14", tier, seed, "proof")
    del LIMITS[:]
    legs = build_legs()
    L0, LX = legs[""], legs["extras"]
    if L0["rc"] != 0:
        res.violation("harness does not build against the repository (C14 cannot run)", {"theorem_or_correspondence": "C14 (build)", "log": L0["log"][-3000:]}, no_failing_input=True)
        return res.finish()
    hbin = L0["hbin"]
    readout, lines, problems, xline = regenerate(hbin)
    thm = check_theorems("C14")
    proof_coverage(res, thm, "make -C coq props/C14.vo (coqc 8.16.1, full .vo build) + Print Assumptions", BASE_TRUST + [
        "rust/harness/src/genread.rs (syn reader of grammar.rs), tools/sexp2v.py and tools/pest2v.py (printers of the read parser / optimized rules / grammar as Gallina)",
        "coq/Gen/GenCompile.v, coq/Peg/VmCompile.v, coq/Comb/Exec.v as models of generator.rs, vm/src/lib.rs, parser_state.rs",
    ])
    rc, out = coq_make(["Extract/GenExtract.vo"])
    if rc != 0:
        thm["ok"] = False
        thm["problems"].append("extraction build failed")
    for attempt in range(4):
        orc, oout, runner = ocaml_build("c14_runner", ["gen_model"], extra=["gen_common.ml"])
        if orc == 0:
            break
        time.sleep(1 + attempt)
    if orc != 0:
        res.violation("OCaml runner does not build", {"theorem_or_correspondence": "C14 extraction", "log": oout[-3000:]}, no_failing_input=True)
        return res.finish()

    # the third leg: a parser freshly generated by the in-tree generator, compiled (one per feature set)
    gen_exe, gstage, glog = L0["gen"], L0["gstage"], L0["glog"]
    gen_pipe = ("| %s " % gen_exe) if gen_exe else ""

    if replay:
        rj = json.load(open(replay))
        leg = legs.get(rj.get("features", ""), L0)
        if leg["rc"] != 0:
            res.violation("harness does not build against the repository with %s" % FEAT_NAME[leg["feat"]], {"theorem_or_correspondence": "C14 (build)", "log": leg["log"][-3000:]}, no_failing_input=True)
            return res.finish()
        pre = [(x.get("rule", "grammar_rules"), x.get("input", "-")) for x in rj.get("pre", [])]
        rsw = rj.get("switch", "")
        sp, lim, shown = rerun(leg, pre + [(rj.get("rule", "grammar_rules"), rj.get("input", "-")) + ((rsw,) if rsw else ())])
        if rsw:
            # under a call limit pest_vm (another program) may answer differently inside the band: only the leg the replay names counts
            sp = [x for x in sp if switch_of(x["case"]) == rsw and against_of(x["case"]) == against_of(rj.get("case", ""))]
        log("replay: " + shown[-2000:])
        where = ((" " + switch_words(rsw)) if rsw else "") + (" (crates built with the %s)" % FEAT_NAME[leg["feat"]] if leg["feat"] else "") + (" after the %d texts of its history were fed in the same process" % len(pre) if pre else "")
        if lim and not sp:
            res.violation("replayed text: the freshly generated parser still does not finish within %d calls where the checked-in parser returns%s" % (FRESH_CALL_LIMIT, where),
                          {"case": rj.get("case", ""), "rule": rj.get("rule", "grammar_rules"), "input": rj.get("input", "-"), "pre": rj.get("pre", []), "features": leg["feat"]})
        if LAST_SETTINGS and not sp:
            x = LAST_SETTINGS[0]
            res.violation("replayed call: the public entry %s still changes pest's process-wide settings%s: before `%s`, after `%s`" % (x["case"].split(" entry=")[-1].split()[0], where, x["expected"], x["impl"]),
                          {"case": rj.get("case", ""), "rule": rj.get("rule", "grammar_rules"), "input": rj.get("input", "-"), "pre": rj.get("pre", []), "features": leg["feat"],
                           "impl": x["impl"], "before": x["expected"]})
        if sp:
            res.violation("replayed text is still parsed differently by the checked-in parser and %s%s" % (" / ".join(sorted(set(against_name(x["case"]) for x in sp))), where),
                          {"case": rj.get("case", ""), "rule": rj.get("rule", "grammar_rules"), "input": rj.get("input", "-"), "pre": rj.get("pre", []), "features": leg["feat"],
                           "switch": rsw, "impl": sp[0]["impl"][:20000], "other": sp[0]["expected"][:20000]})
        return res.finish()
    for leg in (L0, LX):
        if leg["rc"] != 0:
            res.violation("harness does not build against the repository with %s (the legs cannot be compared for that build)" % FEAT_NAME[leg["feat"]],
                          {"theorem_or_correspondence": "C14 (build, %s)" % FEAT_NAME[leg["feat"]], "log": leg["log"][-3000:]}, no_failing_input=True)
        elif not leg["gen"]:
            res.violation("a parser freshly generated from meta/src/grammar.pest by the in-tree generator (%s) %s" % (FEAT_NAME[leg["feat"]],
                              "cannot be produced (pest_generator::derive_parser fails)" if leg["gstage"] == "generate" else "does not compile"),
                          {"theorem_or_correspondence": "C14 fresh parser (%s, %s)" % (leg["gstage"], FEAT_NAME[leg["feat"]]), "log": leg["glog"]}, no_failing_input=True)

    # (1) regenerate, byte comparison
    rc, out = sh("%s regen %s" % (hbin, REPO), timeout=300)
    regen = [l for l in out.split("\n") if l.startswith("REGEN\t")]
    regen_ok = bool(regen) and regen[0].split("\t")[1] == "identical"
    regen_fns = [l.split("\t", 1)[1].strip() for l in out.split("\n") if l.startswith("REGENFN\t")]
    spec_found = False
    # (2)-(4) structural reading + differential runs
    count = 150 if tier == "quick" else 4000
    maxmodel = 300 if tier == "quick" else 1500
    rd = os.path.join(BUILD, "c14_read_%d.txt" % os.getpid())   # private per process: concurrent checks (other repositories) do not collide
    with open(rd, "w") as f:
        f.write(readout + ("\n" + xline + "\n" if xline else ""))
    cmds = ["cat %s | %s %d" % (rd, runner, maxmodel)]
    seeds = [seed] if tier == "quick" else [seed * 10 + i for i in range(8)]
    fresh = None
    if tier != "quick":
        d, tdir = (os.path.join(BUILD, "c14fresh"), os.path.join(ROOT, "rust", "target-c14fresh")) if REPO == "/repo" else (
            "/tmp/pvharness-%s-c14fresh" % hashlib.sha1(REPO.encode()).hexdigest()[:8], "/tmp/pvtarget-%s-c14fresh" % hashlib.sha1(REPO.encode()).hexdigest()[:8])
        os.makedirs(os.path.join(d, "src"), exist_ok=True)
        rc, src = sh("%s freshsrc %s" % (hbin, REPO))
        write_if_changed(os.path.join(d, "src", "main.rs"), src)
        hdir, _ = harness_dir()
        repo = REPO.rstrip("/")
        write_if_changed(os.path.join(d, "Cargo.toml"),
                         '[package]\nname = "c14fresh"\nversion = "0.0.0"\nedition = "2021"\npublish = false\n\n[workspace]\n\n[dependencies]\n'
                         'pest = { path = "%s/pest" }\npest_derive = { path = "%s/derive" }\n\n[profile.release]\nopt-level = 1\n' % (repo, repo))
        sh("cp %s %s" % (os.path.join(REPO, "Cargo.lock"), os.path.join(d, "Cargo.lock")))
        frc, fout = sh("cargo build --release --offline 2>&1", cwd=d, timeout=1500, env={"CARGO_TARGET_DIR": tdir, "RUSTFLAGS": "--cfg %s -Awarnings" % HOOK_CFG})
        if frc == 0:
            fresh = os.path.join(tdir, "release", "c14fresh")
        else:
            res.violation("a fresh #[derive(Parser)] of meta/src/grammar.pest does not compile", {"theorem_or_correspondence": "C14 fresh parser (build)", "log": fout[-3000:]}, no_failing_input=True)
    legs_pipe = gen_pipe + (("| %s " % fresh) if fresh else "")   # column order: generated source first, #[derive] second
    if fresh and not gen_exe:
        FRESH_NAMES["fresh"] = FRESH_NAMES["fresh-derive"]
    L0["pipe"] = legs_pipe
    LX["pipe"] = ("| %s " % LX["gen"]) if LX["gen"] else ""
    for i, sd in enumerate(seeds):
        cmds.append("%s diff %s %d %d %s %s| %s %d" % (hbin, REPO, count, sd, "" if i == 0 else "nofixed", legs_pipe, runner, maxmodel))
    # the same comparison for the crates built with grammar-extras (oracle: the real code only; the fresh token stream of that build
    # structurally against the generator model for the rules that build's optimizer prints)
    n_default = len(cmds)
    if LX["rc"] == 0:
        cmds.append("%s readx %s | %s -1 %s" % (LX["hbin"], REPO, runner, tag_of("extras")))
        for i, sd in enumerate(seeds[::2] if len(seeds) > 1 else seeds):
            cmds.append("%s diff %s %d %d %s %s| %s -1 %s" % (LX["hbin"], REPO, count, sd, "" if i == 0 else "nofixed", LX["pipe"], runner, tag_of("extras")))
    # large texts after rejected ones, the caller's settings around every entry (both builds)
    pct = 100 if tier == "quick" else 250
    epfiles = {}
    for leg in (L0, LX):
        if leg["rc"] == 0:
            epfiles[leg["feat"]] = os.path.join(BUILD, "c14_episodes_%s%d.txt" % (leg["feat"], os.getpid()))
            cmds.append("%s large %s %d %s %d %s| %s -1 %s" % (leg["hbin"], REPO, seed, epfiles[leg["feat"]], pct, leg["pipe"], runner, tag_of(leg["feat"])))
    # the legs under the settings of pest's two process-wide switches: error detail on, call limits around each leg's budget (both builds)
    for leg in (L0, LX):
        if leg["rc"] == 0:
            cmds.append("%s switches %s %d %d %s| %s -1 %s" % (leg["hbin"], REPO, count, seed, leg["pipe"], runner, tag_of(leg["feat"])))
    mism, stats, which, diffs = run_pipes(cmds)
    per = list(PER_CMD)
    try:
        os.remove(rd)
    except OSError:
        pass
    stats_x = {}
    for pc in per[n_default:]:
        if tag_of("extras") and pc["cmd"].rstrip().endswith(tag_of("extras")):
            for k, v in pc["stats"].items():
                stats_x[k] = stats_x.get(k, 0) + v if isinstance(v, int) else v
    stats_large = {}
    for pc in per:
        if " large " in pc["cmd"]:
            for k, v in pc["stats"].items():
                stats_large[k] = stats_large.get(k, 0) + v if isinstance(v, int) else v
    stats_sw = {}
    for pc in per:
        if " switches " in pc["cmd"]:
            for k, v in pc["stats"].items():
                stats_sw[k] = stats_sw.get(k, 0) + v if isinstance(v, int) else v
    episodes = {f: read_episodes(pth) for f, pth in epfiles.items()}
    for pth in epfiles.values():
        try:
            os.remove(pth)
        except OSError:
            pass

    # ---- targeted failing-input search: a structural / byte-level / Coq-level break without a behavioural witness so far.  The rules to
    # search around: the functions in which the regenerated grammar.rs differs from the checked-in one (token level), and the functions in
    # which the checked-in / the fresh parser differ from the generator model (DIFF lines of the structural stage).  The oracle is the real
    # code only (checked-in parser vs pest_vm vs the compiled fresh parser); the texts are described in `c14 target`.  Per build of the
    # crates: the default build's structural stages, or the structural stage of the grammar-extras build. ----
    search = None
    for leg in (L0, LX):
        feat = leg["feat"]
        if leg["rc"] != 0:
            continue
        mine = [m for m in mism if feat_of(m["case"]) == feat]
        if feat == "":
            broken = (not regen_ok) or (not thm["ok"]) or any(m["kind"] in ("model", "read") for m in mine)
            ldiffs = [d for pc in per if not feat_of(pc["cmd"]) for d in pc["diffs"]]
        else:
            broken = any(m["kind"] in ("model", "read") for m in mine)
            ldiffs = [d for pc in per if feat_of(pc["cmd"]) == feat for d in pc["diffs"]]
        found = [m for m in mine if m["kind"] == "spec"]
        # (also run when the only failing texts so far are long ones: the search yields short, rule-local ones)
        if not (broken and (not found or min(len(m["case"]) for m in found) > 120)):
            continue
        names = []
        for f in (regen_fns if feat == "" else []):
            parts = f.split("::")
            if len(parts) >= 2 and parts[-2] == "rules":
                names.append(parts[-1])
            elif parts[-1] == "skip":
                names += ["WHITESPACE", "COMMENT"]
        for d in ldiffs:
            if d.startswith("fn "):
                names.append(d[3:].strip())
            elif "skip" in d:
                names += ["WHITESPACE", "COMMENT"]
        names = [n for i, n in enumerate(names) if n not in names[:i] and re.fullmatch(r"[A-Za-z0-9_]+", n)][:8]
        light = False
        if not names:
            # nothing pinpointed (a reader / proof failure of another kind): every rule, without the exhaustive stage
            names = [l for l in lines.get("O", ["", ""])[1].split(";")]
            names = [re.match(r"\((\S+) ", n).group(1) for n in names if re.match(r"\((\S+) ", n)]
            light = True
        if names:
            t0 = time.time()
            tl = 4 if tier == "quick" else 5
            groups = [names[i::NPROC] for i in range(min(NPROC, len(names)))]
            m2, s2, _, _ = run_pipes(["%s target %s %s %d %s %d %s| %s -1 %s" % (leg["hbin"], REPO, ",".join(g), tl, "light" if light else "full", seed, leg["pipe"], runner, tag_of(feat)) for g in groups if g])
            stages = list(STAGES)
            this = {"build": FEAT_NAME[feat], "rules": names, "pinpointed": not light, "texts": s2.get("cases", 0), "compared_with_fresh_parser": s2.get("fresh_compared", 0),
                    "disagreements": s2.get("spec_differences", 0), "stages": "; ".join(stages)[:3000], "wall_s": round(time.time() - t0, 1)}
            search = this if search is None else ([search, this] if isinstance(search, dict) else search + [this])
            log("C14: targeted search (%s) on the %s %s: %d (rule, text) cases on the checked-in parser, pest_vm and %s (spellings of each rule at every repetition count and "
                "alternative, embedded in every calling rule, trivia at every position, strippable / normalisable characters around and inside%s), %d disagreements (%.0fs)" % (
                    FEAT_NAME[feat], "differing rules" if not light else "rules (nothing pinpointed)", ", ".join(names[:12]) + (" .." if len(names) > 12 else ""), s2.get("cases", 0),
                    "the fresh parser" if leg["gen"] else "NO fresh parser", "" if light else ", all strings up to length %d over the rules' literal alphabet" % tl,
                    s2.get("spec_differences", 0), time.time() - t0))
            keep = [m for m in m2 if m["kind"] in ("spec", "harness")]
            for m in keep:
                m["pipe"] = -1
            mism += keep
            for k in ("cases", "evaluations", "distinct_nontrivial", "spec_differences", "fresh_compared", "entry_vs_generated", "parse_and_optimize_vs_vm", "settings_checks", "parse_and_optimize_vs_steps"):
                stats[k] = stats.get(k, 0) + s2.get(k, 0)

    # ---- a public entry changed pest's process-wide settings and no text has shown the legs apart so far: look for the text size at which
    # the call limit left behind starts to change a leg's answer (`c14 large .. LEAKFILE`) ----
    settings_m = [m for m in mism if m["kind"] == "settings"]
    leak_search = None
    if settings_m and not [m for m in mism if m["kind"] == "spec"]:
        t0 = time.time()
        seen, lcmds, lfeat = set(), [], []
        for m in sorted(settings_m, key=lambda m: len(m["case"])):
            rule, inp = case_parts(m["case"])
            feat = feat_of(m["case"])
            if (rule, inp, feat) in seen or feat in [f for f, _, _ in lfeat] or "cl=Some" not in m["impl"]:   # one follow-up per build of the crates
                continue
            seen.add((rule, inp, feat))
            lf = os.path.join(BUILD, "c14_leak_%d_%d.txt" % (os.getpid(), len(lcmds)))
            with open(lf, "w") as fh:
                fh.write("%s\t%s\n" % (rule, inp))
            ef = os.path.join(BUILD, "c14_leakep_%d_%d.txt" % (os.getpid(), len(lcmds)))
            leg = legs[feat]
            lcmds.append("%s large %s %d %s %d %s %s| %s -1 %s" % (leg["hbin"], REPO, seed, ef, pct, lf, leg["pipe"], runner, tag_of(feat)))
            lfeat.append((feat, ef, lf))
        if lcmds:
            m3, s3, _, _ = run_pipes(lcmds)
            notes = [l.split("\t", 1)[1] for pc in PER_CMD for l in pc["other"] if l.startswith("LEAKSEARCH\t")]
            for feat, ef, lf in lfeat:
                episodes.setdefault(feat, [])
                episodes[feat] += read_episodes(ef)
                for x in (ef, lf):
                    try:
                        os.remove(x)
                    except OSError:
                        pass
            keep = [m for m in m3 if m["kind"] in ("spec", "harness")]
            for m in keep:
                m["pipe"] = -1
            mism += keep
            leak_search = {"leaking_calls_followed_up": len(lcmds), "texts": s3.get("cases", 0), "bytes": s3.get("large_bytes", 0), "disagreements": s3.get("spec_differences", 0),
                           "notes": notes, "wall_s": round(time.time() - t0, 1)}
            log("C14: a public entry leaves a call limit behind; search for the text size at which it changes a leg's answer: %s; %d texts compared, %d disagreements (%.0fs)" % (
                "; ".join(notes)[:600], s3.get("cases", 0), s3.get("spec_differences", 0), time.time() - t0))
            for k in ("cases", "evaluations", "distinct_nontrivial", "spec_differences", "fresh_compared"):
                stats[k] = stats.get(k, 0) + s3.get(k, 0)

    # texts on which only the fresh parser ran into its call limit: reported (with the text) when nothing else was found, after a re-run
    # of the text in a process of its own
    limit_v = None
    if LIMITS and not [m for m in mism if m["kind"] == "spec"]:
        for cand in sorted(LIMITS, key=lambda m: len(m["case"]))[:3]:
            mm = re.match(r"r=(\S+) in=(\S+) against=(\S+)", cand["case"])
            if not mm:
                continue
            sp1, lim1, _ = rerun(legs[feat_of(cand["case"])], [(mm.group(1), mm.group(2))])
            if lim1:
                limit_v = (cand, mm.group(1), mm.group(2))
                break
    if LIMITS:
        log("C14: %d texts on which a freshly generated parser ran into its call limit (%d calls) while the checked-in parser returned" % (stats.get("fresh_limited", len(LIMITS)), FRESH_CALL_LIMIT))
    spec_m = [m for m in mism if m["kind"] == "spec"]
    settings_m = [m for m in mism if m["kind"] == "settings"]
    model_m = [m for m in mism if m["kind"] == "model"]
    read_m = [m for m in mism if m["kind"] == "read"]
    other_m = [m for m in mism if m["kind"] not in ("spec", "model", "read", "settings")]
    if spec_m:
        spec_found = True
        # the shortest text; a disagreement on the token forest / the error position and sets before one that shows only in what the result says
        # about the text (identity of the token tree's input, line and line/column of the error: after " ## ")
        ranked = sorted(spec_m, key=lambda m: (m["impl"].split(" ## ")[0] == m["expected"].split(" ## ")[0], len(m["case"])))
        # every leg lives in one process with the texts fed before: the candidate is re-run in a process of its own - alone, then after the
        # texts its episode fed before it / after the last call that changed pest's settings before it, then after all earlier episodes.
        # The replay carries the history that makes it reproduce.
        worst, pre, confirmed = ranked[0], [], None
        for cand in ranked[:3]:
            if cand["case"] == "grammar.pest":
                worst, confirmed = cand, True
                break
            rule, inp = case_parts(cand["case"])
            leg = legs[feat_of(cand["case"])]
            hist = []
            eps = episodes.get(leg["feat"], [])
            for k, (er, eh, epre) in enumerate(eps):
                if (er, eh) == (rule, inp) or (rule, inp) in epre:
                    if epre and (er, eh) == (rule, inp):
                        hist.append(list(epre))
                    allprev = [x for (r2, h2, p2) in eps[:k] for x in p2 + [(r2, h2)]] + (list(epre) if (er, eh) == (rule, inp) else [])
                    if allprev and allprev not in hist:
                        hist.append(allprev)
                    break
            if cand.get("pipe", -1) >= 0:
                before = [m for m in per[cand["pipe"]]["mism"] if m["kind"] == "settings" and m["idx"] < cand["idx"]]
                if before:
                    hist.insert(0 if not hist else 1, [case_parts(before[-1]["case"])])
            if not hist and settings_m:
                hist.append([case_parts(settings_m[0]["case"])])
            for sw in switch_candidates(cand):
                for h in [[]] + hist:
                    sp1, lim1, _ = rerun(leg, h + [(rule, inp) + ((sw,) if sw else ())])
                    if sw:
                        sp1 = [x for x in sp1 if switch_of(x["case"]) == sw and against_of(x["case"]) == against_of(cand["case"])]
                    if sp1:
                        worst, pre, confirmed = cand, h, True
                        if sw:
                            # the concrete setting, and what the two legs answer under it
                            worst = dict(cand, case=re.sub(r" switch=\S+", " switch=" + sw, cand["case"]), impl=sp1[0]["impl"], expected=sp1[0]["expected"])
                        break
                if confirmed:
                    break
            if confirmed:
                break
            confirmed = False
        m = re.match(r"r=(\S+) in=(\S+) against=(\S+)", worst["case"])
        rule, inp, against = (m.group(1), m.group(2), m.group(3)) if m else ("", "", "")
        feat = feat_of(worst["case"])
        shown = show_hex(inp)
        wsw = switch_of(worst["case"])
        ctx = ((" " + switch_words(wsw)) if wsw else "") + (" [crates built with the %s]" % FEAT_NAME[feat] if feat else "")
        if pre:
            leak = [x for x in settings_m if case_parts(x["case"]) in pre]
            ctx += " [after %s had been fed to the same entries in the same process%s; alone in a fresh process the text is parsed alike]" % (
                ", ".join("%s on %r" % (x[0], show_hex(x[1], 60)) for x in pre[:3]) + (" .. (%d texts)" % len(pre) if len(pre) > 3 else ""),
                "; %s left pest's process-wide settings at `%s` (before: `%s`)" % (leak[0]["case"].split(" entry=")[-1].split()[0], leak[0]["impl"], leak[0]["expected"]) if leak else "")
        if confirmed is False:
            ctx += " [seen in the run; not reproduced in a process of its own, neither alone nor with the history tried]"
        extra = {"pre": [{"rule": x[0], "input": x[1]} for x in pre], "features": feat, "switch": wsw}
        if worst["case"] == "grammar.pest":
            res.violation("%s" % worst["impl"][:400], {"theorem_or_correspondence": "C14: the checked-in parser on its own grammar file", "case": worst["case"], "impl": worst["impl"]})
        elif " entry=" in worst["case"]:
            entry = worst["case"].split(" entry=")[-1].split()[0]
            res.violation("the public entry %s of the checked-in grammar parser and %s disagree%s: rule %s on text %r: `%s` vs `%s` (%d disagreeing cases in this run)" % (
                              entry, against_name(worst["case"]), ctx, rule, shown[:200], worst["impl"][:200], worst["expected"][:200], stats.get("spec_differences", len(spec_m))),
                          dict({"theorem_or_correspondence": "C14 oracle: the public entries of the checked-in parser (pest_meta::parser::parse, parse_and_optimize) vs the generated "
                                                             "PestParser they wrap vs pest_vm vs their own steps (real code)", "case": worst["case"][:2000],
                                "rule": rule, "input": inp, "impl": worst["impl"][:20000], "other": worst["expected"][:20000]}, **extra))
        else:
            res.violation("the checked-in grammar parser and %s disagree%s: rule %s on text %r: checked-in `%s` vs `%s` (%d disagreeing cases in this run)" % (
                              against_name(worst["case"]), ctx, rule, shown[:200], worst["impl"][:200],
                              worst["expected"][:200], stats.get("spec_differences", len(spec_m))),
                          dict({"theorem_or_correspondence": "C14 oracle: pest_meta::parser::parse vs pest_vm vs freshly generated parser (real code)", "case": worst["case"][:2000],
                                "rule": rule, "input": inp, "impl": worst["impl"][:20000], "other": worst["expected"][:20000]}, **extra))
    if settings_m:
        w = min(settings_m, key=lambda m: len(m["case"]))
        rule, inp = case_parts(w["case"])
        res.violation("a call of the public entry %s%s changes pest's process-wide settings (which every later parse of the process runs under: all legs of the property, "
                      "on every later text): rule %s on text %r: before `%s`, after `%s` (%d such calls in this run)" % (
                          w["case"].split(" entry=")[-1].split()[0], " [%s]" % FEAT_NAME[feat_of(w["case"])] if feat_of(w["case"]) else "", rule, show_hex(inp),
                          w["expected"], w["impl"], stats.get("settings_changed", len(settings_m))),
                      {"theorem_or_correspondence": "C14 oracle on the implementation: the public entries of the grammar front end leave pest's call limit / error detail as they were",
                       "case": w["case"][:2000], "rule": rule, "input": inp, "features": feat_of(w["case"]), "impl": w["impl"], "before": w["expected"]}, no_failing_input=not spec_found)
    if limit_v and not spec_m:
        cand, rule, inp = limit_v
        spec_found = True
        res.violation("a parser freshly generated from grammar.pest by the in-tree generator does not finish within %d calls (pest's call limit) on rule %s, text %r, "
                      "which the checked-in parser (and the VM) parse with the result `%s` (%d such texts in this run)" % (
                          FRESH_CALL_LIMIT, rule, show_hex(inp), cand["impl"][:200], stats.get("fresh_limited", len(LIMITS))),
                      {"theorem_or_correspondence": "C14 oracle: pest_meta::parser::parse vs freshly generated parser (real code), termination", "case": cand["case"][:2000],
                       "rule": rule, "input": inp, "features": feat_of(cand["case"]), "impl": cand["impl"][:20000], "other": "Custom call limit reached"})
    if not regen_ok:
        res.violation("meta/src/grammar.rs is not what the generator emits for meta/src/grammar.pest: %s" % (regen[0].split("\t", 2)[2][:600] if regen else out[-300:]),
                      {"theorem_or_correspondence": "C14 (1): bootstrap regeneration, byte comparison", "detail": regen[0] if regen else out[-2000:]},
                      no_failing_input=not spec_found)
    for m in read_m:
        res.violation("%s could not be read back%s: %s" % (field_what(m["case"]), " [%s]" % FEAT_NAME[feat_of(m["case"])] if feat_of(m["case"]) else "", m["impl"][:300]),
                      {"theorem_or_correspondence": "C14 (2): reader", "case": m["case"][:2000], "impl": m["impl"]}, no_failing_input=not spec_found)
    if model_m:
        tvm = [m for m in model_m if " at=" in m["case"]]
        beh = [m for m in model_m if " at=" not in m["case"]]
        if tvm:
            worst = tvm[0]
            res.violation("%s differs from the generator model for the current grammar.pest at `%s`: read `%s` vs model `%s`" % (
                              " and ".join(sorted(set(which))) or "the read parser", worst["case"].split(" at=")[-1][:80], worst["impl"][:300], worst["expected"][:300]),
                          {"theorem_or_correspondence": "C14 (2): closure table read from grammar.rs vs extracted gen_rule (structural)", "case": worst["case"][:3000],
                           "impl": worst["impl"], "model": worst["expected"], "which": which}, no_failing_input=not spec_found)
        if beh:
            worst = min(beh, key=lambda m: len(m["case"]))
            res.violation("the extracted model of the generated meta-parser and the checked-in parser disagree on %s: real `%s` vs model `%s`" % (
                              worst["case"][:200], worst["impl"][:200], worst["expected"][:200]),
                          {"theorem_or_correspondence": "C14 correspondence: checked-in parser vs exec over gen_env(meta)", "case": worst["case"], "impl": worst["impl"],
                           "model": worst["expected"]}, no_failing_input=not spec_found)
    for m in other_m:
        res.violation("harness failure: " + m["impl"][:300], {"theorem_or_correspondence": "C14 (run)", "log": m["expected"]}, no_failing_input=True)
    for p in problems:
        res.violation(p, {"theorem_or_correspondence": "C14 translators"}, no_failing_input=True)
    # optional: the Gallina optimizer on the independently translated grammar
    orc2, oout2 = coq_make(["Gen/MetaOptCheck.vo"], timeout=600)
    res.coverage["gallina_optimizer_cross_check"] = "proved (optimize meta_grammar = Some meta_opt)" if orc2 == 0 else "not built (the C05 development or the check itself fails): " + oout2[-300:]
    if tier != "quick" and thm["ok"]:
        crc, cout = coqchk("C14")
        res.coverage["coqchk"] = "ok" if crc == 0 else "FAILED"
        if crc != 0:
            thm["ok"] = False
            thm["problems"].append("coqchk rejected PV.props.C14")
            thm["log"] = cout
    if not thm["ok"]:
        res.violation("proof obligation no longer checks (meta-grammar outside H, or the checked-in closures are not the generator model's): " + "; ".join(thm["problems"]),
                      {"theorem_or_correspondence": "coq/props/C14.v", "log": thm["log"][-3000:]}, no_failing_input=not spec_found)
    log("C14: regeneration %s; %d differential cases (%d through the model, %d comparisons with a compiled freshly generated parser; %d of the cases with the crates built with grammar-extras), "
        "%d .pest files; %d large texts (%d kB) after rejected ones; %d checks that an entry leaves pest's settings alone; meta-grammar: %s rules, in H: %s; optimizer cross-check: %s" % (
        "byte-identical" if regen_ok else "DIFFERENT", stats.get("cases", 0), stats.get("modelled", 0), stats.get("fresh_compared", 0), stats_x.get("cases", 0),
        per[1]["stats"].get("pest_files", 0) if len(per) > 1 else 0, stats_large.get("cases", 0), stats_large.get("large_bytes", 0) // 1024, stats.get("settings_checks", 0),
        per[1]["stats"].get("rules", 0) if len(per) > 1 else 0, "yes" if all(pc["stats"].get("in_H", 0) == 1 for pc in per if "rules" in pc["stats"] and not feat_of(pc["cmd"])) else "NO", "proved" if orc2 == 0 else "not built"))
    res.coverage.update({
        "evaluations": stats.get("evaluations", 0),
        "distinct_nontrivial": stats.get("distinct_nontrivial", 0),
        "rule": "texts: every .pest file shipped in the repository, generated grammars in concrete syntax, 1-3 character-level mutations / truncations / duplications of "
                "them (windows of 300 chars; one mutation in five inserts a strippable / normalisable character at the start, the end or inside), all strings of "
                "length <= 2 over 12 meta characters and 35 fragments (+ one mutation each) fed to EVERY rule of the "
                "meta-grammar, random strings of length 3-10; 24 characters and sequences a layer in front of a parser typically strips, normalises or treats as blank "
                "(U+FEFF, CRLF / LF / CR, NUL, TAB, NBSP, NEL, LS, PS, ZWSP, ideographic space, FF, ^Z, DEL, U+FFFE, a combining mark, fullwidth brace, Kelvin sign, "
                "characters of 2, 3 and 4 UTF-8 bytes, U+10FFFF): each alone, in front of (also doubled, with a blank before / after), behind and inside a shortest "
                "spelling of EVERY rule, fed to that rule, and in front of / behind / inside the shipped and the generated grammars, fed to the top rule (%d such texts); "
                "one evaluation = one (rule, text); non-trivial = a parse producing tokens or failing past position 0" % stats.get("entry_char_texts", 0),
        "exhaustive": False,
        "samples": ["grammar_rules on meta/src/grammar.pest", "string on \"a\"", "expression on `a ~ b | c`"],
        "runner_cases": stats.get("cases", 0),
        "mismatches": len(mism),
        "regeneration": "identical" if regen_ok else "different",
        "legs": "every text: checked-in parser through its public entry pest_meta::parser::parse AND through the generated PestParser::parse the entry wraps "
                "(forest / error, identity of the input the token tree refers to, line and line/column of the error), pest_vm on parse_and_optimize(grammar.pest); "
                "top-rule texts also pest_meta::parse_and_optimize (a parse error iff pest_vm has one, the same one; the same outcome as its steps parse, validate_pairs, "
                "consume_rules, optimize called one after the other)" + (
                    ", the in-tree derive_parser output for grammar.pest compiled as source" if gen_exe else " (NO freshly generated parser: it could not be built)") + (
                    ", a compiled #[derive(Parser)] of grammar.pest" if fresh else "") + "; texts of at most %d bytes also the extracted model" % maxmodel,
        "feature_sets": {"default features": "all stages",
                         "grammar-extras": ("not run: the harness does not build with the feature" if LX["rc"] != 0 else
                                            "checked-in parser vs pest_vm vs %s on the same text families (generated grammars with node tags and PUSH_LITERAL): %d cases, %d disagreements; "
                                            "fresh token stream read back against the generator model for that build's optimized rules" % (
                                                "the fresh parser that build's generator emits" if LX["gen"] else "NO fresh parser (it could not be built)",
                                                stats_x.get("cases", 0), stats_x.get("spec_differences", 0)))},
        "large_texts_after_rejected_ones": {"texts": stats_large.get("cases", 0), "bytes": stats_large.get("large_bytes", 0), "episodes": stats_large.get("large_episodes", 0),
                                            "what": "generated grammars, the shipped grammars with renamed rules, the meta-grammar repeated, one long expression; each after a rejected text "
                                                    "(syntax error, undefined rule, duplicate rule, a cut / damaged large grammar); both builds"},
        "settings_oracle": {"checks": stats.get("settings_checks", 0), "changes_seen": stats.get("settings_changed", 0),
                            "what": "after every call of parser::parse, PestParser::parse, Vm::parse, validate_pairs, consume_rules, optimize, parse_and_optimize in every case of every "
                                    "stage: the call limit and error-detail flag a new ParserState sees are what they were before the call (default settings; in the large-text "
                                    "stage also with a call limit of 50,000,000 and error detail set by the caller)",
                            "follow_up": leak_search if leak_search else "not run (no entry changed the settings, or a failing text was already found)"},
        "process_wide_switches": {"cases_with_error_detail": stats_sw.get("detail_cases", 0), "of_them_errors_with_parse_attempts": stats_sw.get("detail_errors_with_attempts", 0),
                                  "cases_under_call_limits": stats_sw.get("limit_cases", 0), "budgets_found": stats_sw.get("budgets_found", 0),
                                  "pest_vm_far_from_budget_runs": stats_sw.get("vm_far_from_budget", 0),
                                  "what": "both builds; checked-in parser (public entry), pest_vm and the compiled fresh parser, each observed by the same code (rust/harness/src/c14_switches.rs). "
                                          "Error detail on: forest, or error + Error::parse_attempts() (farthest position, expected / unexpected tokens, rule call stacks, as sets) + the "
                                          "message parse_attempts_error renders; texts: every prefix of a shortest spelling of every rule and of 35 fragments (to every rule), the fragments "
                                          "in 5 places of a rule definition with every prefix, shipped grammar files whole and cut, random derivations and mutations. Call limits: the "
                                          "smallest limit a leg does not refuse (doubling + bisection) and its answers at / below it must be EQUAL for the checked-in and the fresh parser "
                                          "(the same generated code); pest_vm is compared only far from it (1/8: refuses too; 8x + 256: answers as without a limit)"},
        "parse_and_optimize_vs_steps_comparisons": stats.get("parse_and_optimize_vs_steps", 0),
        "entry_vs_generated_parser_comparisons": stats.get("entry_vs_generated", 0),
        "parse_and_optimize_vs_vm_comparisons": stats.get("parse_and_optimize_vs_vm", 0),
        "fresh_parser_comparisons": stats.get("fresh_compared", 0),
        "fresh_parser_call_limit_hits": stats.get("fresh_limited", 0),
        "targeted_search": search if search else "not run (no structural / proof / correspondence break, or a failing text was already found)",
    })
    res.assumptions = ["model runs are limited to texts of at most %d bytes (unary positions in the extracted model)" % maxmodel,
                       "the freshly generated parsers run under pest's call limit of %d calls per parse (a parse that reaches it is reported separately, "
                       "never as agreement); the checked-in parser and the VM run without a limit" % FRESH_CALL_LIMIT,
                       "the settings oracle reads the settings through the verification hook ParserState::verif_dump (cfg pest_parser_pest_verif)"]
    return res.finish()


FRESH_NAMES = {"vm": "pest_vm on parse_and_optimize(grammar.pest)",
               "direct": "the generated PestParser::parse of meta/src/grammar.rs that it wraps (same text, called directly)",
               "fresh": "a parser freshly generated from grammar.pest by the in-tree generator (derive_parser output compiled as source)",
               "fresh-derive": "a freshly compiled #[derive(Parser)] of grammar.pest",
               "parts": "its own steps (pest_meta::parser::parse, validator::validate_pairs, parser::consume_rules, optimizer::optimize called one after the other on the same text)"}


def against_name(case):
    m = re.search(r"against=(\S+)", case)
    a = m.group(1) if m else "vm"
    return FRESH_NAMES.get(a, a)


def field_what(case):
    m = re.search(r"what=(.*)$", case)
    return m.group(1) if m else "the parser"
