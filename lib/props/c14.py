"""C14 - the bootstrapped grammar parser is the parser its grammar file denotes."""
import importlib.util
from common import *

META = {
    "property_id": "C14",
    "level": "proof",
    "technique": "translation validation + Coq proof: the checked-in meta/src/grammar.rs is regenerated (bootstrap invocation of the real "
                 "generator, byte comparison) and read back (syn reader) into a closure table that is regenerated into Coq on every run; "
                 "Coq checks that every function of it is gen_rule/gen_skip/built-in of the generator model for the optimized meta-grammar "
                 "the real optimizer printed, that the meta-grammar is in class H, and instantiates the C02 theorem; differential runs of "
                 "the checked-in parser against pest_vm and the extracted model on grammars, near-miss grammars and fragments, for the top "
                 "rule and every sub-rule",
    "text": "Theorem C14_checked_in_parser_eq_vm (coq/props/C14.v, closed under the global context): the optimized meta-grammar printed by "
            "the current optimizer is in class H; the closure table read from the checked-in meta/src/grammar.rs consists, function by "
            "function, of gen_rule / gen_skip / the built-ins of the generator model for that grammar (enum, all_rules and the start "
            "dispatch included, every called path resolves); hence for every rule of the meta-grammar, every text, either error-detail "
            "setting and all fuels that suffice, running the checked-in closures and running the VM on the current optimizer's output "
            "give the same token queue / the same error position, positives and negatives (instance of C02). Every run also: regenerates "
            "grammar.rs with the bootstrap invocation and compares it byte for byte with the checked-in file; reads the freshly generated "
            "token stream and validates it the same way; cross-checks the independent translation of grammar.pest against the AST "
            "pest_meta reads (and, when the C05 development builds, proves in Coq that the Gallina optimizer maps one to the printed "
            "optimized rules); runs pest_meta::parser::parse against pest_vm on parse_and_optimize(grammar.pest) and against the extracted "
            "model on the shipped .pest files, generated grammars, mutated/truncated grammars and short fragments, comparing acceptance, "
            "token forest and error; the checked-in parser is run through its public entry pest_meta::parser::parse and through the generated PestParser::parse "
            "it wraps (any transformation of the text, the spans or the error in between is a disagreement; so is a token tree that refers to another input "
            "than the caller's), top-rule texts also through pest_meta::parse_and_optimize; the texts put the characters such a layer typically strips or "
            "normalises (byte order mark, line-break conventions, NUL, Unicode blanks, characters of every UTF-8 width) around and inside spellings of every rule; "
            "the token stream the in-tree derive_parser returns for grammar.pest is compiled as source on every run and is the "
            "third leg of every comparison (thorough also compiles a #[derive(Parser)] of grammar.pest as a fourth). When a structural stage or the proof "
            "breaks without a failing text, the rules pinpointed (token-level function diff of the regenerated grammar.rs, DIFF lines of the closure "
            "comparison) are searched: spellings of the rule derived from the grammar (every alternative, every repetition count from min-1 to max+1), "
            "embedded in every calling rule up to the top rule, the grammar's own trivia at every position, all short strings over the rule's literals.",
    "note": "Trusted: Coq kernel; extraction; the syn reader (strict) and the two python printers of s-expressions as Gallina; VmCompile.v / "
            "Exec.v as models of the VM / ParserState (tied to the code by the differential runs here and by C01/C03). The theorem is about the "
            "closure table read from grammar.rs, not about rustc's compilation of it.",
    "design_ref": "DESIGN.md section 3, C14",
    "coq_targets": ["props/C14.vo", "Extract/GenExtract.vo"],
    "bins": ["c14"],
}


FRESH_CALL_LIMIT = 20000000   # CALL_LIMIT of rust/harness/src/c14_fresh_main.rs.in
LIMITS = []   # texts on which a fresh parser ran into its call limit while the checked-in parser finished (all run_pipes calls of this run)
STAGES = []   # what the targeted search of the last run_pipes call covered (STAGES lines of `c14 target`)


def load(name):
    spec = importlib.util.spec_from_file_location(name, os.path.join(ROOT, "tools", name + ".py"))
    m = importlib.util.module_from_spec(spec)
    spec.loader.exec_module(m)
    return m


def regenerate(hbin):
    """coq/gen/MetaGrammar.v, MetaOpt.v, MetaCheckedIn.v from the repository; returns (read lines dict, problems, x_line)"""
    problems = []
    rc, out = sh("%s read %s" % (hbin, REPO), timeout=300)
    lines = {}
    for l in out.split("\n"):
        p = l.split("\t")
        if p and p[0] in ("A", "O", "T", "F", "TE", "GE"):
            lines.setdefault(p[0], p)
    gen = os.path.join(COQ, "gen")
    xline = ""
    try:
        p2v = load("pest2v")
        text = open(os.path.join(REPO, "meta", "src", "grammar.pest"), encoding="utf-8", newline="").read()
        rules = p2v.parse_grammar(text)
        write_if_changed(os.path.join(gen, "MetaGrammar.v"), p2v.coq_grammar(rules, "meta_grammar", "meta/src/grammar.pest"))
        xline = "X\t" + p2v.sexp_grammar(rules)
    except Exception as ex:
        problems.append("tools/pest2v.py cannot translate meta/src/grammar.pest: %s" % ex)
    try:
        s2v = load("sexp2v")
        if "O" in lines:
            write_if_changed(os.path.join(gen, "MetaOpt.v"), s2v.ogrammar(lines["O"][1], "meta_opt",
                             "the optimized rules printed by pest_meta::optimizer::optimize on meta/src/grammar.pest"))
        if "T" in lines:
            write_if_changed(os.path.join(gen, "MetaCheckedIn.v"), s2v.checked_in(lines["T"][4], "meta/src/grammar.rs"))
    except Exception as ex:
        problems.append("tools/sexp2v.py: %s" % ex)
    return out, lines, problems, xline


def pre_setup():
    rc, out, bdir = harness_build(["c14"])
    if rc == 0:
        regenerate(os.path.join(bdir, "c14"))


if not os.path.exists(os.path.join(COQ, "gen", "MetaCheckedIn.v")):
    try:
        pre_setup()
    except Exception:
        pass


def fresh_dirs(name):
    """(crate dir, target dir) of a scratch crate for this repository (for a copy of the repository: below the shadow harness directory)."""
    if REPO == "/repo":
        return os.path.join(BUILD, name), os.path.join(ROOT, "rust", "target-" + name)
    tag = hashlib.sha1(REPO.encode()).hexdigest()[:8]
    return "/tmp/pvharness-%s/%s" % (tag, name), "/tmp/pvtarget-%s-%s" % (tag, name)


def build_fresh_generated(hbin):
    """The third leg of the property: the token stream the IN-TREE pest_generator::derive_parser returns for meta/src/grammar.pest (the
    bootstrap invocation; bootstrap/ itself links the crates.io generator), written out as source and compiled against the
    repository's `pest`.  Returns (exe or None, stage that failed, log)."""
    d, tdir = fresh_dirs("c14gen")
    os.makedirs(os.path.join(d, "src"), exist_ok=True)
    rc, src = sh("%s freshgen %s" % (hbin, REPO), timeout=300)
    if rc != 0 or "fn main" not in src:
        return None, "generate", src[-2000:]
    write_if_changed(os.path.join(d, "src", "main.rs"), src)
    write_if_changed(os.path.join(d, "Cargo.toml"),
                     '[package]\nname = "c14gen"\nversion = "0.0.0"\nedition = "2021"\npublish = false\n\n[workspace]\n\n[dependencies]\n'
                     'pest = { path = "%s/pest" }\n\n[profile.release]\nopt-level = 1\noverflow-checks = true\ndebug-assertions = true\npanic = "unwind"\n'
                     'debug = false\ncodegen-units = 16\n' % REPO.rstrip("/"))
    if not os.path.exists(os.path.join(d, "Cargo.lock")):
        sh("cp %s %s" % (os.path.join(REPO, "Cargo.lock"), os.path.join(d, "Cargo.lock")))
    rc, out = sh("cargo build --release --offline 2>&1", cwd=d, timeout=1500, env={"CARGO_TARGET_DIR": tdir, "RUSTFLAGS": "--cfg %s -Awarnings" % HOOK_CFG})
    if rc != 0:
        return None, "compile", out[-3000:]
    return os.path.join(tdir, "release", "c14gen"), "", ""


def setup():
    brc, bout, bdir = harness_build(["c14"])
    if brc == 0:
        build_fresh_generated(os.path.join(bdir, "c14"))


def run_pipes(cmds, timeout=3000):
    outs = run_pipeline(cmds, timeout=timeout)
    del STAGES[:]
    mism, stats, which, diffs = [], {}, [], []
    for (rc, out), c in zip(outs, cmds):
        m, s, other = parse_runner_output(out)
        if rc != 0 or "mismatches" not in s or "evaluations" not in s:
            mism.append({"kind": "harness", "case": c, "impl": "pipeline `%s` failed rc=%s" % (c[:200], rc), "expected": out[-800:]})
        mism += m
        which += [l.split("\t", 1)[1] for l in other if l.startswith("WHICH\t")]
        diffs += [l.split("\t", 1)[1] for l in other if l.startswith("DIFF\t")]
        STAGES.extend(l.split("\t", 1)[1] for l in other if l.startswith("STAGES\t"))
        for l in other:
            if l.startswith("LIMIT\t"):
                q = l.split("\t")
                LIMITS.append({"kind": "limit", "case": q[1], "impl": q[2] if len(q) > 2 else "", "expected": "Custom call limit reached"})
        for k, v in s.items():
            stats[k] = stats.get(k, 0) + v if isinstance(v, int) else v
    return mism, stats, which, diffs


def run(tier, seed, replay=None):
    res = Result("C14", tier, seed, "proof")
    del LIMITS[:]
    brc, bout, bdir = harness_build(["c14"])
    if brc != 0:
        res.violation("harness does not build against the repository (C14 cannot run)", {"theorem_or_correspondence": "C14 (build)", "log": bout[-3000:]}, no_failing_input=True)
        return res.finish()
    hbin = os.path.join(bdir, "c14")
    readout, lines, problems, xline = regenerate(hbin)
    thm = check_theorems("C14")
    proof_coverage(res, thm, "make -C coq props/C14.vo (coqc 8.16.1, full .vo build) + Print Assumptions", BASE_TRUST + [
        "rust/harness/src/genread.rs (syn reader of grammar.rs), tools/sexp2v.py and tools/pest2v.py (printers of the read parser / optimized rules / grammar as Gallina)",
        "coq/Gen/GenCompile.v, coq/Peg/VmCompile.v, coq/Comb/Exec.v as models of generator.rs, vm/src/lib.rs, parser_state.rs",
    ])
    rc, out = coq_make(["Extract/GenExtract.vo"])
    if rc != 0:
        thm["ok"] = False
        thm["problems"].append("extraction build failed")
    for attempt in range(4):
        orc, oout, runner = ocaml_build("c14_runner", ["gen_model"], extra=["gen_common.ml"])
        if orc == 0:
            break
        time.sleep(1 + attempt)
    if orc != 0:
        res.violation("OCaml runner does not build", {"theorem_or_correspondence": "C14 extraction", "log": oout[-3000:]}, no_failing_input=True)
        return res.finish()

    # the third leg: a parser freshly generated by the in-tree generator, compiled
    gen_exe, gstage, glog = build_fresh_generated(hbin)
    gen_pipe = ("| %s " % gen_exe) if gen_exe else ""

    if replay:
        rj = json.load(open(replay))
        rc, out = sh("%s diff %s 0 0 one %s %s %s| %s 100000" % (hbin, REPO, rj.get("rule", "grammar_rules"), rj.get("input", "-"), gen_pipe, runner), timeout=300)
        m, s, other = parse_runner_output(out)
        log("replay: " + "\n".join(l[:600] for l in out.split("\n") if not l.startswith("G\t"))[-2000:])
        sp = [x for x in m if x["kind"] == "spec"]
        lim = [l for l in other if l.startswith("LIMIT\t")]
        if lim and not sp:
            res.violation("replayed text: the freshly generated parser still does not finish within %d calls where the checked-in parser returns" % FRESH_CALL_LIMIT,
                          {"case": rj.get("case", ""), "rule": rj.get("rule", "grammar_rules"), "input": rj.get("input", "-")})
        if sp:
            res.violation("replayed text is still parsed differently by the checked-in parser and %s" % " / ".join(sorted(set(against_name(x["case"]) for x in sp))),
                          {"case": rj.get("case", ""), "rule": rj.get("rule", "grammar_rules"), "input": rj.get("input", "-"), "impl": sp[0]["impl"], "other": sp[0]["expected"]})
        return res.finish()
    if not gen_exe:
        res.violation("a parser freshly generated from meta/src/grammar.pest by the in-tree generator %s" % (
                          "cannot be produced (pest_generator::derive_parser fails)" if gstage == "generate" else "does not compile"),
                      {"theorem_or_correspondence": "C14 fresh parser (%s)" % gstage, "log": glog}, no_failing_input=True)

    # (1) regenerate, byte comparison
    rc, out = sh("%s regen %s" % (hbin, REPO), timeout=300)
    regen = [l for l in out.split("\n") if l.startswith("REGEN\t")]
    regen_ok = bool(regen) and regen[0].split("\t")[1] == "identical"
    regen_fns = [l.split("\t", 1)[1].strip() for l in out.split("\n") if l.startswith("REGENFN\t")]
    spec_found = False
    # (2)-(4) structural reading + differential runs
    count = 150 if tier == "quick" else 4000
    maxmodel = 300 if tier == "quick" else 1500
    rd = os.path.join(BUILD, "c14_read.txt")
    with open(rd, "w") as f:
        f.write(readout + ("\n" + xline + "\n" if xline else ""))
    cmds = ["cat %s | %s %d" % (rd, runner, maxmodel)]
    seeds = [seed] if tier == "quick" else [seed * 10 + i for i in range(8)]
    fresh = None
    if tier != "quick":
        d, tdir = (os.path.join(BUILD, "c14fresh"), os.path.join(ROOT, "rust", "target-c14fresh")) if REPO == "/repo" else (
            "/tmp/pvharness-%s-c14fresh" % hashlib.sha1(REPO.encode()).hexdigest()[:8], "/tmp/pvtarget-%s-c14fresh" % hashlib.sha1(REPO.encode()).hexdigest()[:8])
        os.makedirs(os.path.join(d, "src"), exist_ok=True)
        rc, src = sh("%s freshsrc %s" % (hbin, REPO))
        write_if_changed(os.path.join(d, "src", "main.rs"), src)
        hdir, _ = harness_dir()
        repo = REPO.rstrip("/")
        write_if_changed(os.path.join(d, "Cargo.toml"),
                         '[package]\nname = "c14fresh"\nversion = "0.0.0"\nedition = "2021"\npublish = false\n\n[workspace]\n\n[dependencies]\n'
                         'pest = { path = "%s/pest" }\npest_derive = { path = "%s/derive" }\n\n[profile.release]\nopt-level = 1\n' % (repo, repo))
        sh("cp %s %s" % (os.path.join(REPO, "Cargo.lock"), os.path.join(d, "Cargo.lock")))
        frc, fout = sh("cargo build --release --offline 2>&1", cwd=d, timeout=1500, env={"CARGO_TARGET_DIR": tdir, "RUSTFLAGS": "--cfg %s -Awarnings" % HOOK_CFG})
        if frc == 0:
            fresh = os.path.join(tdir, "release", "c14fresh")
        else:
            res.violation("a fresh #[derive(Parser)] of meta/src/grammar.pest does not compile", {"theorem_or_correspondence": "C14 fresh parser (build)", "log": fout[-3000:]}, no_failing_input=True)
    legs = gen_pipe + (("| %s " % fresh) if fresh else "")   # column order: generated source first, #[derive] second
    if fresh and not gen_exe:
        FRESH_NAMES["fresh"] = FRESH_NAMES["fresh-derive"]
    for i, sd in enumerate(seeds):
        cmds.append("%s diff %s %d %d %s %s| %s %d" % (hbin, REPO, count, sd, "" if i == 0 else "nofixed", legs, runner, maxmodel))
    mism, stats, which, diffs = run_pipes(cmds)

    # ---- targeted failing-input search: a structural / byte-level / Coq-level break without a behavioural witness so far.  The rules to
    # search around: the functions in which the regenerated grammar.rs differs from the checked-in one (token level), and the functions in
    # which the checked-in / the fresh parser differ from the generator model (DIFF lines of the structural stage).  The oracle is the real
    # code only (checked-in parser vs pest_vm vs the compiled fresh parser); the texts are described in `c14 target`. ----
    broken = (not regen_ok) or (not thm["ok"]) or any(m["kind"] in ("model", "read") for m in mism)
    search = None
    found = [m for m in mism if m["kind"] == "spec"]
    # (also run when the only failing texts so far are long ones: the search yields short, rule-local ones)
    if broken and (not found or min(len(m["case"]) for m in found) > 120):
        names = []
        for f in regen_fns:
            parts = f.split("::")
            if len(parts) >= 2 and parts[-2] == "rules":
                names.append(parts[-1])
            elif parts[-1] == "skip":
                names += ["WHITESPACE", "COMMENT"]
        for d in diffs:
            if d.startswith("fn "):
                names.append(d[3:].strip())
            elif "skip" in d:
                names += ["WHITESPACE", "COMMENT"]
        names = [n for i, n in enumerate(names) if n not in names[:i] and re.fullmatch(r"[A-Za-z0-9_]+", n)][:8]
        light = False
        if not names:
            # nothing pinpointed (a reader / proof failure of another kind): every rule, without the exhaustive stage
            names = [l for l in lines.get("O", ["", ""])[1].split(";")]
            names = [re.match(r"\((\S+) ", n).group(1) for n in names if re.match(r"\((\S+) ", n)]
            light = True
        if names:
            t0 = time.time()
            tl = 4 if tier == "quick" else 5
            groups = [names[i::NPROC] for i in range(min(NPROC, len(names)))]
            m2, s2, _, _ = run_pipes(["%s target %s %s %d %s %d %s| %s -1" % (hbin, REPO, ",".join(g), tl, "light" if light else "full", seed, legs, runner) for g in groups if g])
            stages = list(STAGES)
            search = {"rules": names, "pinpointed": not light, "texts": s2.get("cases", 0), "compared_with_fresh_parser": s2.get("fresh_compared", 0),
                      "disagreements": s2.get("spec_differences", 0), "stages": "; ".join(stages)[:3000], "wall_s": round(time.time() - t0, 1)}
            log("C14: targeted search on the %s %s: %d (rule, text) cases on the checked-in parser, pest_vm and %s (spellings of each rule at every repetition count and "
                "alternative, embedded in every calling rule, trivia at every position, strippable / normalisable characters around and inside%s), %d disagreements (%.0fs)" % (
                    "differing rules" if not light else "rules (nothing pinpointed)", ", ".join(names[:12]) + (" .." if len(names) > 12 else ""), s2.get("cases", 0),
                    "the fresh parser" if gen_exe else "NO fresh parser", "" if light else ", all strings up to length %d over the rules' literal alphabet" % tl,
                    s2.get("spec_differences", 0), time.time() - t0))
            mism += [m for m in m2 if m["kind"] in ("spec", "harness")]
            for k in ("cases", "evaluations", "distinct_nontrivial", "spec_differences", "fresh_compared", "entry_vs_generated", "parse_and_optimize_vs_vm"):
                stats[k] = stats.get(k, 0) + s2.get(k, 0)

    # texts on which only the fresh parser ran into its call limit: reported (with the text) when nothing else was found, after a re-run
    # of the text in a process of its own
    limit_v = None
    if LIMITS and not [m for m in mism if m["kind"] == "spec"]:
        for cand in sorted(LIMITS, key=lambda m: len(m["case"]))[:3]:
            mm = re.match(r"r=(\S+) in=(\S+) against=(\S+)", cand["case"])
            if not mm:
                continue
            rc, o1 = sh("%s diff %s 0 0 one %s %s %s| %s -1" % (hbin, REPO, mm.group(1), mm.group(2), legs, runner), timeout=600)
            if any(l.startswith("LIMIT\t") for l in o1.split("\n")):
                limit_v = (cand, mm.group(1), mm.group(2))
                break
    if LIMITS:
        log("C14: %d texts on which a freshly generated parser ran into its call limit (%d calls) while the checked-in parser returned" % (stats.get("fresh_limited", len(LIMITS)), FRESH_CALL_LIMIT))
    spec_m = [m for m in mism if m["kind"] == "spec"]
    model_m = [m for m in mism if m["kind"] == "model"]
    read_m = [m for m in mism if m["kind"] == "read"]
    other_m = [m for m in mism if m["kind"] not in ("spec", "model", "read")]
    if spec_m:
        spec_found = True
        # the shortest text; a disagreement on the token forest / the error position and sets before one that shows only in what the result says
        # about the text (identity of the token tree's input, line and line/column of the error: after " ## ")
        worst = min(spec_m, key=lambda m: (m["impl"].split(" ## ")[0] == m["expected"].split(" ## ")[0], len(m["case"])))
        m = re.match(r"r=(\S+) in=(\S+) against=(\S+)", worst["case"])
        rule, inp, against = (m.group(1), m.group(2), m.group(3)) if m else ("", "", "")
        try:
            shown = bytes.fromhex(inp).decode("utf-8", "replace") if inp != "-" else ""
        except ValueError:
            shown = inp
        if worst["case"] == "grammar.pest":
            res.violation("%s" % worst["impl"][:400], {"theorem_or_correspondence": "C14: the checked-in parser on its own grammar file", "case": worst["case"], "impl": worst["impl"]})
        elif " entry=" in worst["case"]:
            entry = worst["case"].split(" entry=")[-1]
            res.violation("the public entry %s of the checked-in grammar parser and %s disagree: rule %s on text %r: `%s` vs `%s` (%d disagreeing cases in this run)" % (
                              entry, against_name(worst["case"]), rule, shown[:200], worst["impl"][:200], worst["expected"][:200], stats.get("spec_differences", len(spec_m))),
                          {"theorem_or_correspondence": "C14 oracle: the public entries of the checked-in parser (pest_meta::parser::parse, parse_and_optimize) vs the generated "
                                                        "PestParser they wrap vs pest_vm (real code)", "case": worst["case"],
                           "rule": rule, "input": inp, "impl": worst["impl"], "other": worst["expected"]})
        else:
            res.violation("the checked-in grammar parser and %s disagree: rule %s on text %r: checked-in `%s` vs `%s` (%d disagreeing cases in this run)" % (
                              against_name(worst["case"]), rule, shown[:200], worst["impl"][:200],
                              worst["expected"][:200], stats.get("spec_differences", len(spec_m))),
                          {"theorem_or_correspondence": "C14 oracle: pest_meta::parser::parse vs pest_vm vs freshly generated parser (real code)", "case": worst["case"],
                           "rule": rule, "input": inp, "impl": worst["impl"], "other": worst["expected"]})
    if limit_v and not spec_m:
        cand, rule, inp = limit_v
        spec_found = True
        res.violation("a parser freshly generated from grammar.pest by the in-tree generator does not finish within %d calls (pest's call limit) on rule %s, text %r, "
                      "which the checked-in parser (and the VM) parse with the result `%s` (%d such texts in this run)" % (
                          FRESH_CALL_LIMIT, rule, bytes.fromhex(inp).decode("utf-8", "replace")[:200] if inp != "-" else "", cand["impl"][:200], stats.get("fresh_limited", len(LIMITS))),
                      {"theorem_or_correspondence": "C14 oracle: pest_meta::parser::parse vs freshly generated parser (real code), termination", "case": cand["case"],
                       "rule": rule, "input": inp, "impl": cand["impl"], "other": "Custom call limit reached"})
    if not regen_ok:
        res.violation("meta/src/grammar.rs is not what the generator emits for meta/src/grammar.pest: %s" % (regen[0].split("\t", 2)[2][:600] if regen else out[-300:]),
                      {"theorem_or_correspondence": "C14 (1): bootstrap regeneration, byte comparison", "detail": regen[0] if regen else out[-2000:]},
                      no_failing_input=not spec_found)
    for m in read_m:
        res.violation("%s could not be read back: %s" % (field_what(m["case"]), m["impl"][:300]),
                      {"theorem_or_correspondence": "C14 (2): reader", "case": m["case"][:2000], "impl": m["impl"]}, no_failing_input=not spec_found)
    if model_m:
        tvm = [m for m in model_m if " at=" in m["case"]]
        beh = [m for m in model_m if " at=" not in m["case"]]
        if tvm:
            worst = tvm[0]
            res.violation("%s differs from the generator model for the current grammar.pest at `%s`: read `%s` vs model `%s`" % (
                              " and ".join(sorted(set(which))) or "the read parser", worst["case"].split(" at=")[-1][:80], worst["impl"][:300], worst["expected"][:300]),
                          {"theorem_or_correspondence": "C14 (2): closure table read from grammar.rs vs extracted gen_rule (structural)", "case": worst["case"][:3000],
                           "impl": worst["impl"], "model": worst["expected"], "which": which}, no_failing_input=not spec_found)
        if beh:
            worst = min(beh, key=lambda m: len(m["case"]))
            res.violation("the extracted model of the generated meta-parser and the checked-in parser disagree on %s: real `%s` vs model `%s`" % (
                              worst["case"][:200], worst["impl"][:200], worst["expected"][:200]),
                          {"theorem_or_correspondence": "C14 correspondence: checked-in parser vs exec over gen_env(meta)", "case": worst["case"], "impl": worst["impl"],
                           "model": worst["expected"]}, no_failing_input=not spec_found)
    for m in other_m:
        res.violation("harness failure: " + m["impl"][:300], {"theorem_or_correspondence": "C14 (run)", "log": m["expected"]}, no_failing_input=True)
    for p in problems:
        res.violation(p, {"theorem_or_correspondence": "C14 translators"}, no_failing_input=True)
    # optional: the Gallina optimizer on the independently translated grammar
    orc2, oout2 = coq_make(["Gen/MetaOptCheck.vo"], timeout=600)
    res.coverage["gallina_optimizer_cross_check"] = "proved (optimize meta_grammar = Some meta_opt)" if orc2 == 0 else "not built (the C05 development or the check itself fails): " + oout2[-300:]
    if tier != "quick" and thm["ok"]:
        crc, cout = coqchk("C14")
        res.coverage["coqchk"] = "ok" if crc == 0 else "FAILED"
        if crc != 0:
            thm["ok"] = False
            thm["problems"].append("coqchk rejected PV.props.C14")
            thm["log"] = cout
    if not thm["ok"]:
        res.violation("proof obligation no longer checks (meta-grammar outside H, or the checked-in closures are not the generator model's): " + "; ".join(thm["problems"]),
                      {"theorem_or_correspondence": "coq/props/C14.v", "log": thm["log"][-3000:]}, no_failing_input=not spec_found)
    log("C14: regeneration %s; %d differential cases (%d through the model, %d comparisons with a compiled freshly generated parser), %d .pest files; meta-grammar: %s rules, in H: %s; optimizer cross-check: %s" % (
        "byte-identical" if regen_ok else "DIFFERENT", stats.get("cases", 0), stats.get("modelled", 0), stats.get("fresh_compared", 0), stats.get("pest_files", 0) // max(1, len(seeds)),
        stats.get("rules", 0) // max(1, len(seeds)), "yes" if stats.get("in_H", 0) == len(seeds) else "NO", "proved" if orc2 == 0 else "not built"))
    res.coverage.update({
        "evaluations": stats.get("evaluations", 0),
        "distinct_nontrivial": stats.get("distinct_nontrivial", 0),
        "rule": "texts: every .pest file shipped in the repository, generated grammars in concrete syntax, 1-3 character-level mutations / truncations / duplications of "
                "them (windows of 300 chars; one mutation in five inserts a strippable / normalisable character at the start, the end or inside), all strings of "
                "length <= 2 over 12 meta characters and 35 fragments (+ one mutation each) fed to EVERY rule of the "
                "meta-grammar, random strings of length 3-10; 24 characters and sequences a layer in front of a parser typically strips, normalises or treats as blank "
                "(U+FEFF, CRLF / LF / CR, NUL, TAB, NBSP, NEL, LS, PS, ZWSP, ideographic space, FF, ^Z, DEL, U+FFFE, a combining mark, fullwidth brace, Kelvin sign, "
                "characters of 2, 3 and 4 UTF-8 bytes, U+10FFFF): each alone, in front of (also doubled, with a blank before / after), behind and inside a shortest "
                "spelling of EVERY rule, fed to that rule, and in front of / behind / inside the shipped and the generated grammars, fed to the top rule (%d such texts); "
                "one evaluation = one (rule, text); non-trivial = a parse producing tokens or failing past position 0" % stats.get("entry_char_texts", 0),
        "exhaustive": False,
        "samples": ["grammar_rules on meta/src/grammar.pest", "string on \"\\\"a\\\"\"", "expression on `a ~ b | c`"],
        "runner_cases": stats.get("cases", 0),
        "mismatches": len(mism),
        "regeneration": "identical" if regen_ok else "different",
        "legs": "every text: checked-in parser through its public entry pest_meta::parser::parse AND through the generated PestParser::parse the entry wraps "
                "(forest / error, identity of the input the token tree refers to, line and line/column of the error), pest_vm on parse_and_optimize(grammar.pest); "
                "top-rule texts also pest_meta::parse_and_optimize (a parse error iff pest_vm has one, the same one)" + (
                    ", the in-tree derive_parser output for grammar.pest compiled as source" if gen_exe else " (NO freshly generated parser: it could not be built)") + (
                    ", a compiled #[derive(Parser)] of grammar.pest" if fresh else "") + "; texts of at most %d bytes also the extracted model" % maxmodel,
        "entry_vs_generated_parser_comparisons": stats.get("entry_vs_generated", 0),
        "parse_and_optimize_vs_vm_comparisons": stats.get("parse_and_optimize_vs_vm", 0),
        "fresh_parser_comparisons": stats.get("fresh_compared", 0),
        "fresh_parser_call_limit_hits": stats.get("fresh_limited", 0),
        "targeted_search": search if search else "not run (no structural / proof / correspondence break, or a failing text was already found)",
    })
    res.assumptions = ["model runs are limited to texts of at most %d bytes (unary positions in the extracted model)" % maxmodel,
                       "the freshly generated parsers run under pest's call limit of %d calls per parse (a parse that reaches it is reported separately, "
                       "never as agreement); the checked-in parser and the VM run without a limit" % FRESH_CALL_LIMIT]
    return res.finish()


FRESH_NAMES = {"vm": "pest_vm on parse_and_optimize(grammar.pest)",
               "direct": "the generated PestParser::parse of meta/src/grammar.rs that it wraps (same text, called directly)",
               "fresh": "a parser freshly generated from grammar.pest by the in-tree generator (derive_parser output compiled as source)",
               "fresh-derive": "a freshly compiled #[derive(Parser)] of grammar.pest"}


def against_name(case):
    m = re.search(r"against=(\S+)", case)
    a = m.group(1) if m else "vm"
    return FRESH_NAMES.get(a, a)


def field_what(case):
    m = re.search(r"what=(.*)$", case)
    return m.group(1) if m else "the parser"
