"""C12 - a call limit never changes a result silently."""
import shlex
from common import *

META = {
    "property_id": "C12",
    "level": "proof",
    "technique": "Coq proof over the executable model of pest/src/parser_state.rs (coq/Comb): counter monotone / limit constant (exec_cl), "
                 "refusal sticky, fuel monotonicity (exec_mono), and a simulation by induction on fuel generalised over the start state "
                 "(states that agree on everything but calls/limit: under_limit_simulation) lifted to the state() wrapper; the model is tied "
                 "to the code by a limit sweep 1..calls+2 over generated ParserState closure trees and over generated grammars run by the real "
                 "pest_vm, each result compared with the extracted model and checked against the property directly",
    "text": "Theorem C12_call_limit_never_silent (coq/props/C12.v, closed under the global context): for the state() wrapper that also consults "
            "the call limit when the closure returned Ok (fixes/C12-1-state-ok-path.patch; model flag fixedlim), for every closure environment, "
            "closure tree, input, error-detail switch, limit L and fuels sufficient for the runs: the parse under L returns exactly what the parse "
            "without limit returns, or the `call limit reached` error (position unspecified); and if the parse under L completes (Ok or ParsingError) "
            "then under every L' >= L it returns the identical result. The statement is for parses that return: a limited parse that panics "
            "(stack_pop/stack_peek on a stack that lacks what a refused call would have pushed) is the decidable PanicClass, shown inhabited "
            "(C12_panic_class_inhabited) and shown never to be a panic internal to pest (C12_panic_is_client_side); C12_trichotomy states clause 1 as "
            "`equal, or the error, or a panic` without a class hypothesis. For state() as shipped the "
            "statement is refuted in Coq (C12_refuted: rule r = repeat(rule a = \"x\") on xxxx, limit 3: Ok with 1 pair instead of 4; replayed on the "
            "real code through the closure tree and through `r = { a* } a = { \"x\" }` in pest_vm) and proved outside the decidable classes "
            "absorbed-refusal / panic (C12_shipped_outside_classes). Every run ties model and code: all limits 1..calls+2 for exhaustive "
            "(and eight huge limits from 2^31-1 to usize::MAX, handled symbolically by the model runner) for exhaustive absorber x refusable x tail closure trees on all short inputs, random closure trees, fixed and random small grammars through "
            "pest_meta::parse_and_optimize + pest_vm::Vm::parse and through their translation into closure trees; every observation (full state dump + "
            "state() outcome) is recomputed by the extracted model, and both clauses are checked on the real results themselves.",
    "note": "Trusted: Coq kernel; extraction (ExtrOcamlBasic only); harness/runner; the hand-written model of parser_state.rs (Layer C, validated "
            "separately); fuel: each run has an explicit fuel and is assumed not to exhaust it, results are fuel-independent by exec_mono; real "
            "non-termination is outside the statement (a hand-written closure tree can loop under a limit only: repeat(or_else(sequence(..), "
            "stack_match_peek)) - not expressible through a grammar, where every iteration counts a call). The VM/generator layer is not modelled "
            "in Coq here: grammar runs are tied to the model through the harness' translation of the VM into closure trees, compared on every run.",
    "design_ref": "DESIGN.md section 3, C12; section 4 row 1",
    "coq_targets": ["props/C12.vo", "Extract/CombExtract.vo"],
    "bins": ["c12"],
}

CLASS_ABSORBED = "absorbed-refusal"
CLASS_PANIC = "panic-after-refusal"
PATCH = "fixes/C12-1-state-ok-path.patch"


def plan(tier, seed):
    if tier == "quick":
        cmds = ["witness", "small 2"]
        cmds += ["prog 1500 %d" % (seed * 100 + i) for i in range(6)]
        cmds += ["grammar 900 %d" % (seed * 100 + i) for i in range(4)]
        bounds = ("576 trees then(absorber(refusable), tail) (8 absorbers x 9 refusables x 6 tails, bare and inside a rule) on all inputs of "
                  "length <= 2 over {a,b}; 12 fixed grammars on all inputs of length <= 4 over {x,y,space}")
    else:
        cmds = ["witness", "small 4"]
        cmds += ["prog 12000 %d" % (seed * 100 + i) for i in range(14)]
        cmds += ["grammar 9000 %d" % (seed * 100 + i) for i in range(10)]
        bounds = ("576 trees then(absorber(refusable), tail) (8 absorbers x 9 refusables x 6 tails, bare and inside a rule) on all inputs of "
                  "length <= 4 over {a,b}; 12 fixed grammars on all inputs of length <= 6 over {x,y,space}")
    return cmds, bounds


def probe(hbin):
    rc, out = sh("%s probe" % hbin, timeout=60)
    fixed, wit = 1, ""      # if the probe cannot run, expect the state the property describes
    for line in out.split("\n"):
        if line.startswith("#PROBE"):
            for kv in line.split("\t")[1:]:
                k, v = kv.split("=", 1)
                if k == "fixedlim":
                    fixed = int(v)
                if k == "witness_limit3":
                    wit = v
    return fixed, wit


def run_cases(hbin, runner, flags, cmds):
    outs = run_pipeline(["%s %s | %s %s" % (hbin, c, runner, flags) for c in cmds])
    mism, stats = [], {}
    for (rc, out), c in zip(outs, cmds):
        m, s, other = parse_runner_output(out)
        if rc != 0 or "mismatches" not in s or "evaluations" not in s:
            mism.append({"kind": "harness", "case": c, "impl": "pipeline `%s` failed rc=%s" % (c, rc), "expected": out[-800:]})
        mism += m
        for k, v in s.items():
            if k == "max_calls":
                stats[k] = max(stats.get(k, 0), v)
            else:
                stats[k] = stats.get(k, 0) + v if isinstance(v, int) else v
    return mism, stats


def classify(m):
    """spec mismatches carry the harness' message in the impl field"""
    if m["kind"] != "spec":
        return m["kind"]
    msg = m["impl"]
    if msg.startswith("C12-clause1"):
        return "clause1"
    if msg.startswith("C12-clause2"):
        return "clause2"
    if msg.startswith("C12-xlate"):
        return "xlate"
    if msg.startswith("C12-midparse"):
        return "midparse"
    return "spec-other"


def grammar_of(msg):
    g = re.search(r" grammar=`(.*)`$", msg, re.S)
    return g.group(1) if g else None


def engine_of(msg):
    g = re.search(r"^C12-\w+ \[(\w+)\]", msg)
    return g.group(1) if g else "state"


def one(hbin, runner, flags, case, grammar):
    cmd = "%s one %s %s | %s %s" % (hbin, shlex.quote(case), shlex.quote(grammar) if grammar else "", runner, flags)
    rc, out = sh(cmd, timeout=120)
    m, s, _ = parse_runner_output(out)
    return m, s


def run(tier, seed, replay=None):
    res = Result("C12", tier, seed, "proof")
    thm = check_theorems("C12")
    proof_coverage(res, thm, "make -C coq props/C12.vo (coqc 8.16.1, full .vo build) + Print Assumptions", BASE_TRUST + [
        "model of pest/src/parser_state.rs written by hand (coq/Comb/{PState,Bytes,Prog,Exec}.v): CallLimitTracker = fields calls/limit, "
        "inc_call_check_limit = inc_call, state() = outcome_of; flag fixedlim = state() with " + PATCH,
        "the harness' translation of vm/src/lib.rs into closure trees (checked against Vm::parse on every grammar case)",
    ])
    rc, out = coq_make(["Extract/CombExtract.vo"])
    if rc != 0:
        thm["ok"] = False
        thm["problems"].append("extraction build failed")
    brc, bout, bdir = harness_build(["c12"])
    if brc != 0:
        res.violation("harness does not build against the repository (correspondence C12 cannot run)",
                      {"theorem_or_correspondence": "C12 correspondence (build)", "log": bout[-3000:]}, no_failing_input=True)
        return res.finish()
    for attempt in range(4):   # ocaml/gen is shared with the other Layer-C checks
        orc, oout, runner = ocaml_build("c12_runner", ["comb_model"])
        if orc == 0:
            break
        time.sleep(1 + attempt)
    if orc != 0:
        res.violation("OCaml runner does not build", {"theorem_or_correspondence": "C12 extraction", "log": oout[-3000:]}, no_failing_input=True)
        return res.finish()
    hbin = os.path.join(bdir, "c12")
    fixed, wit = probe(hbin)
    flags = "--fixedlim" if fixed else ""
    log("C12: implementation state (probe): state() %s (witness under limit 3: %s) -> model flag fixedlim=%s" % (
        "consults the limit on the Ok path (repaired)" if fixed else "as shipped", wit[:60], bool(fixed)))

    if replay:
        rj = json.load(open(replay))
        m, s = one(hbin, runner, flags, rj.get("case", ""), rj.get("grammar"))
        bad = [x for x in m if classify(x) in ("clause1", "clause2")]
        log("replay: %d mismatches (%d against the property), sweep stats %s" % (len(m), len(bad), {k: s.get(k) for k in ("evaluations", "limit_errors", "limit_panics", "property_violations")}))
        for x in m[:6]:
            log("  %s %s\n    %s" % (x["kind"], x["case"][:200], x["impl"][:500]))
        if bad:
            res.violation("replayed case still violates the property: " + bad[0]["impl"][:400], {"case": rj.get("case", ""), "grammar": rj.get("grammar")})
        return res.finish()

    cmds, bounds = plan(tier, seed)
    mism, stats = run_cases(hbin, runner, flags, cmds)

    known = {f.get("class"): f for f in known_findings("C12") if f.get("status") == "known"}
    by = {}
    for m in mism:
        by.setdefault(classify(m), []).append(m)
    prop_bad = by.get("clause1", []) + by.get("clause2", [])
    nviol = stats.get("property_violations", 0)
    if prop_bad:
        # one report per engine: the closure tree on the real ParserState, and a real grammar through pest_vm
        for eng, what in (("state", "closure tree on pest::ParserState / pest::state"), ("vm", "grammar through pest_meta::parse_and_optimize + pest_vm::Vm::parse")):
            ms = [m for m in prop_bad if engine_of(m["impl"]) == eng and (eng == "state" or grammar_of(m["impl"]))]
            if not ms:
                continue
            pref = [m for m in ms if classify(m) == "clause1"] or ms
            # prefer a witness whose unlimited parse completes (Ok / ParsingError), then the smallest
            worst = min(pref, key=lambda m: (0 if re.search(r"without `(OK|PE):", m["impl"]) else 1,
                                             len(m["case"]) + len(grammar_of(m["impl"]) or ""), m["case"]))
            g = grammar_of(worst["impl"])
            rep = {"theorem_or_correspondence": "C12 oracle: both clauses checked directly on the real results of the limit sweep (Coq: C12_refuted for state() as shipped)",
                   "case": worst["case"], "grammar": g, "class": CLASS_ABSORBED if not fixed else "other", "impl": worst["impl"],
                   "violating_evaluations": nviol, "suggested_fix": PATCH if not fixed else None,
                   "case_legend": "lim=<limit> det=<error detail> in=<input bytes, hex> env=<closures> prog=<closure tree>; replay redoes the whole limit sweep"}
            desc = ("a call limit changed a result silently (%s): %s" % (what, worst["impl"][:600]))
            if not fixed:
                desc += (" -- state() as shipped consults the limit only when the closure returned Err; repeat/optional/negative look-ahead/or_else "
                         "turn a refused call into Ok (%d violating evaluations in this run; repair: %s)" % (nviol, PATCH))
            if not fixed and CLASS_ABSORBED in known:
                res.known_finding("class=%s witness=%s" % (CLASS_ABSORBED, (g or worst["case"])[:160].replace("\n", " ")))
            else:
                res.violation(desc, rep)
    # correspondence and harness problems
    for cls in sorted(by):
        if cls in ("clause1", "clause2"):
            continue
        ms = by[cls]
        worst = min(ms, key=lambda m: len(m["case"]))
        if cls == "model":
            res.violation("correspondence broken: the real ParserState differs from coq/Comb/Exec.v (fixedlim=%s) on case %s: impl `%s` vs model `%s`%s" % (
                              bool(fixed), worst["case"][:300], worst["impl"][:300], worst["expected"][:300],
                              "" if prop_bad else "; every limit sweep of this run satisfied both clauses of the property on the real results"),
                          {"theorem_or_correspondence": "C12 correspondence: impl vs extracted PV.Comb.Exec", "case": worst["case"],
                           "impl": worst["impl"], "model": worst["expected"], "mismatching_cases": len(ms), "searched": stats},
                          no_failing_input=not prop_bad)
        elif cls == "xlate":
            res.violation("correspondence broken: pest_vm::Vm::parse differs from the harness' translation of vm/src/lib.rs into a closure tree: %s%s" % (
                              worst["impl"][:600], "" if prop_bad else "; every limit sweep of this run satisfied both clauses of the property on the real results"),
                          {"theorem_or_correspondence": "C12 correspondence: Vm::parse vs translated closure tree", "case": worst["case"],
                           "grammar": grammar_of(worst["impl"]), "impl": worst["impl"], "searched": stats}, no_failing_input=not prop_bad)
        elif cls == "midparse":
            res.violation("correspondence broken: %s (in the model `limit` is a field of the parser state, constant along every run: exec_cl; "
                          "a limit that changes during a parse is outside the property's quantifier)" % worst["impl"][:700],
                          {"theorem_or_correspondence": "C12 correspondence: the limit of a parse is the one read when its ParserState is created",
                           "case": worst["case"], "impl": worst["impl"], "searched": stats}, no_failing_input=not prop_bad)
        elif cls == "harness":
            res.violation("harness failure: " + worst["impl"], {"theorem_or_correspondence": "C12 correspondence (run)", "log": worst["expected"]},
                          no_failing_input=True)
        else:
            res.violation("unexpected report from the harness: %s %s" % (worst["case"][:200], worst["impl"][:300]),
                          {"theorem_or_correspondence": "C12 correspondence (run)", "case": worst["case"], "impl": worst["impl"]}, no_failing_input=True)
    lp = stats.get("limit_panics", 0)
    if lp:
        note = ("%d limited runs panicked where the unlimited parse does not (PanicClass of coq/props/C12.v: stack_pop/stack_peek after an absorbed "
                "refusal%s)" % (lp, "; the model agrees on every one of them" if not by.get("model") else ""))
        if CLASS_PANIC in known:
            res.known_finding("class=%s witness=r = @{ PUSH(\"a\")? ~ POP } on `aa`, limit 4: panics; without limit: Ok (%d runs)" % (CLASS_PANIC, lp))
        else:
            log("C12: note: " + note)
    ld = stats.get("limit_diverged", 0)
    if ld:
        log("C12: note: %d limited runs of hand-written closure trees did not terminate within the harness budget where the unlimited parse does "
            "(excluded by the fuel hypothesis of the theorem; C12_example_limit_only_divergence)" % ld)
    if tier != "quick" and thm["ok"]:
        crc, cout = coqchk("C12")
        res.coverage["coqchk"] = "ok" if crc == 0 else "FAILED"
        if crc != 0:
            thm["ok"] = False
            thm["problems"].append("coqchk rejected PV.props.C12")
            thm["log"] = cout
    if not thm["ok"]:
        res.violation("proof obligation no longer checks: " + "; ".join(thm["problems"]),
                      {"theorem_or_correspondence": "coq/props/C12.v", "log": thm["log"][-3000:]}, no_failing_input=not prop_bad)

    res.coverage.update({
        "evaluations": stats.get("evaluations", 0),
        "distinct_nontrivial": stats.get("distinct_nontrivial", 0),
        "rule": bounds + "; random closure trees (half of them then(absorber(refusable), tail) nested to depth 2, half from the generic Layer-C "
                "generator with closures) on 2 random inputs each; random grammars of 1-3 rules (all modifiers, optional WHITESPACE/COMMENT, stack "
                "built-ins, predicates, bounded repetitions, guarded right recursion) on 3 random inputs each, run by Vm::parse and by their translation; "
                "for each (tree, input, detail): no limit, then every limit 1..calls+2 (when calls+2 > 48: 1..24, 14 evenly spread, calls-2..calls+2) "
                "and then the huge limits 2^31-1, 2^31, 2^32-1, 2^32, 2^32+1, 2^32+calls, 2^63, usize::MAX (both clauses checked on them like on any "
                "other limit; the model runner handles a limit of >= 7 digits symbolically: model run under the stand-in limit 5000, which must end "
                "with calls < 5000, printed with the original limit - justified by under_limit_simulation). In `witness`: 144 deterministic checks that "
                "set_call_limit called from inside a closure does not change the running parse. One evaluation = one run under one limit (full state dump + state() outcome, compared with the model). "
                "non-trivial = distinct (tree, input, detail, limit) with 1 < limit < number of calls of the unlimited parse",
        "exhaustive": True,
        "exhaustive_bound": bounds + " (the theorems are unbounded)",
        "samples": ["lim=3 det=0 in=78787878 env=- prog=(rule 0 (rep (rule 1 (str 78))))",
                    "r = { a* } a = { \"x\" } on xxxx, limits 1..15 through Vm::parse",
                    "lim=1 det=0 in=61 env=- prog=(then (opt (opt (pushlit 61))) pop)"],
        "runner_cases": stats.get("cases", 0),
        "mismatches": len(mism),
        "implementation_state": {"fixedlim": fixed, "witness_limit3": wit},
        "sweeps": stats.get("sweeps", 0),
        "sweeps_with_nontrivial_limit": stats.get("sweeps_nontrivial", 0),
        "histogram": {k: stats.get(k, 0) for k in ("same", "limit_errors", "limit_panics", "limit_diverged", "unlimited_panics", "diverged",
                                                   "huge_limit_evaluations", "midparse_checks", "midparse_mismatches", "property_violations", "vm_runs", "grammars", "grammars_rejected", "xlate_mismatches", "max_calls")},
    })
    res.assumptions = ["input alphabets of the differential runs: a b U+00E9 B (trees), a b x # 1 space / x y space (grammars) - the theorems are for arbitrary byte strings",
                       "rules are numeric ids in the model; grammars have at most 3 rules + WHITESPACE/COMMENT in the runs",
                       "the call limit and the error-detail switch are process globals: set before and reset after every single run, grammars are compiled with no limit set",
                       "runs that exhaust the harness budget of 1200 closure invocations (non-progressing repeat) are recorded as Diverged and excluded, as in the theorem (fuel hypothesis)"]
    return res.finish()
