"""C04 - the token stream is a well-formed tree and every Pairs view agrees with it (iterator / PairsBuilder part)."""
import shlex
from common import *

META = {
    "property_id": "C04",
    "level": "proof",
    "technique": "Coq proof: refinement of the window arithmetic of Pairs/Pair/FlatPairs/Tokens/PairsBuilder (hand-written executable "
                 "model, every panic site explicit) to a plain forest (list machine, structural views), by a representation relation and "
                 "induction over forests and over operation sequences; model tied to pest/src/iterators/*.rs by exhaustive/random "
                 "differential runs of the extracted model and of the extracted specification against the real API",
    "text": "Theorems C04_builder, C04_views_agree_fixed, C04_wfq_checker_and_abstraction (coq/props/C04.v, closed under the global "
            "context): for every well-formed queue (wfq), every window and every finite interleaving of next/next_back/len/peek, "
            "the models of Pairs, FlatPairs and Tokens never panic and answer exactly like the plain list machine on forest_of / its "
            "pre-order / its token list; into_inner, as_span, as_str, concat, single, tokens, flatten, find_tagged, line_col, node tags, "
            "Display, {:#}, Debug and to_json factor through forest_of; PairsBuilder on ordered boundary spans yields a wfq queue whose "
            "forest_of is the node list and panics exactly on a bad span / tag-before-rule. These hold for the model of the code WITH "
            "fixes/C04-1..3 applied; for the code as it is the same statement is refuted in Coq (C04_single_refuted, "
            "C04_flat_len_refuted, C04_json_empty_refuted; witnesses replayed on the implementation) and proved outside the three "
            "decidable classes (C04_current_outside_known_classes). Every run ties the model to the code: PairsBuilder trees (all "
            "forests up to a node bound, random larger ones), real parses through pest_vm and through random ParserState closure "
            "trees; all next/next_back interleavings to a depth bound with len/peek/is_empty/size_hint at every state plus random "
            "longer scripts, on Pairs, FlatPairs and Tokens of the root, of every into_inner and of every Pairs::single; every string "
            "view verbatim. The clause 'every successful parse yields a well-formed queue' is proved separately over the parser-state "
            "model; here it is checked on every real parse result (wfqb).",
    "note": "Trusted: Coq kernel; extraction (ExtrOcamlBasic only); harness/runner (incl. the runner's rendering of serde_json's pretty "
            "printer and of core::fmt's str Debug escaping, exercised on a fixed alphabet); Vec/usize/str semantics as documented "
            "(index, checked subtraction, char boundaries); the queue of a real parse is rebuilt from what Tokens yields (the private "
            "cross-links are not observed directly, all their consequences are). line_col is proved to be LineIndex::line_col at the "
            "node start; LineIndex itself is compared with a counting specification in the runs only (its proof is C10's).",
    "design_ref": "DESIGN.md section 3, C04; section 4 rows 5-7",
    "coq_targets": ["props/C04.vo", "Extract/IterExtract.vo"],
    "bins": ["c04"],
}

CLASS_DESC = {
    "single": ("Pairs::single(pair) is not the one-element forest [pair]: the End index is passed to pairs::new as the exclusive bound "
               "(pair.rs:315), so next_back()/as_str()/tokens()/to_json() of it are wrong or hit unreachable!()",
               "C04_single_refuted", "fixes/C04-1-pairs-single-exclusive-end.patch"),
    "flatlen": ("FlatPairs::len/size_hint is (end-start)>>1, which is not the number of remaining pairs after next()/next_back() "
                "(flat_pairs.rs:101)", "C04_flat_len_refuted", "fixes/C04-2-flat-pairs-len.patch"),
    "json": ("Pairs::to_json (Serialize for Pairs, pairs.rs:509) reads pos(start)/pos(end-1) of an empty window: panics on an empty queue "
             "or a drained iterator, prints unrelated positions for an empty into_inner()", "C04_json_empty_refuted",
             "fixes/C04-3-pairs-to-json-empty.patch"),
}


def plan(tier, seed):
    if tier == "quick":
        cmds = ["exhaustive %d all 7 %d" % (n, seed) for n in (0, 1, 2, 3)]
        cmds += ["exhaustive 4 all 6 %d" % seed, "exhaustive 5 3 7 %d" % seed, "exhaustive 6 1 7 %d" % seed]
        cmds += ["random 150 %d 30" % (seed * 100 + i) for i in range(2)]
        cmds += ["builder 3000 %d" % seed, "vm 4 4", "state 1500 %d" % seed]
        cmds += ["vmgen 350 %d 5" % (seed * 100 + i) for i in range(4)]
        cmds += ["prog 25000 %d 7" % (seed * 100 + i) for i in range(4)]
        bounds = "all forests with <= 4 nodes over rules {a,b} x tags {none,t0} (3 labelings for 5 nodes, 1 for 6); DFS depth 6-7"
    else:
        cmds = ["exhaustive %d all 8 %d" % (n, seed) for n in (0, 1, 2, 3, 4)]
        cmds += ["exhaustive 5 16 8 %d" % seed, "exhaustive 6 4 8 %d" % seed, "exhaustive 7 1 7 %d" % seed]
        cmds += ["random 1500 %d 40" % (seed * 100 + i) for i in range(6)]
        cmds += ["builder 60000 %d" % seed, "vm 6 5"] + ["state 10000 %d" % (seed * 100 + i) for i in range(4)]
        cmds += ["vmgen 2500 %d 6" % (seed * 100 + i) for i in range(6)]
        cmds += ["prog 400000 %d 7" % (seed * 100 + i) for i in range(6)]
        bounds = "all forests with <= 4 nodes over rules {a,b} x tags {none,t0} (16 labelings for 5 nodes, 4 for 6, 1 for 7); DFS depth 7-8"
    return cmds, bounds


def harness_build_min(timeout=900):
    """Fallback when the shared harness crate cannot be built: pest_derive runs pest at compile time (pest_grammars,
    pest_debugger are dependencies of the shared crate), so a badly broken iterator makes the BUILD panic.  The C04 binary
    only needs pest, pest_meta (pre-generated grammar.rs) and pest_vm: build it alone in a private crate under /tmp."""
    tag = hashlib.sha1(REPO.encode()).hexdigest()[:8]
    d = "/tmp/pvharness-c04min-%s" % tag
    os.makedirs(os.path.join(d, "src", "bin"), exist_ok=True)
    repo = REPO.rstrip("/")
    toml = ('[package]\nname = "pvharness"\nversion = "0.0.0"\nedition = "2021"\npublish = false\n\n[workspace]\n\n[features]\ndefault = ["meta"]\nmeta = []\n\n[dependencies]\n'
            'pest = { path = "%s/pest", features = ["pretty-print"] }\npest_meta = { path = "%s/meta" }\npest_vm = { path = "%s/vm" }\n\n'
            '[profile.release]\nopt-level = 2\noverflow-checks = true\ndebug-assertions = true\npanic = "unwind"\ndebug = false\n' % (repo, repo, repo))
    write_if_changed(os.path.join(d, "Cargo.toml"), toml)
    for f in ("lib.rs", "prog.rs", "gram.rs"):
        write_if_changed(os.path.join(d, "src", f), open(os.path.join(HARNESS, "src", f)).read())
    write_if_changed(os.path.join(d, "src", "bin", "c04.rs"), open(os.path.join(HARNESS, "src", "bin", "c04.rs")).read())
    sh("cp %s %s" % (os.path.join(REPO, "Cargo.lock"), os.path.join(d, "Cargo.lock")))
    tdir = "/tmp/pvtarget-c04min-%s" % tag
    rc, out = sh("cargo build --release --offline --bin c04 2>&1", cwd=d, timeout=timeout,
                 env={"CARGO_TARGET_DIR": tdir, "RUSTFLAGS": "--cfg %s -Awarnings" % HOOK_CFG})
    return rc, out, os.path.join(tdir, "release")


def probe(hbin):
    rc, out = sh("%s probe" % hbin, timeout=60)
    # when the probe itself cannot run (the tree is broken more deeply) expect the state the property describes
    flags = {"fix_single": 1, "fix_flatlen": 1, "fix_json": 1}
    for line in out.split("\n"):
        if line.startswith("#PROBE"):
            for kv in line.split("\t")[1:]:
                k, v = kv.split("=")
                if k in flags:
                    flags[k] = int(v)
    return "%d%d%d" % (flags["fix_single"], flags["fix_flatlen"], flags["fix_json"]), flags


def run_cases(hbin, runner, flags, cmds):
    outs = run_pipeline(["%s %s | %s %s" % (hbin, c, runner, flags) for c in cmds])
    mism, stats = [], {}
    for (rc, out), c in zip(outs, cmds):
        m, s, other = parse_runner_output(out)
        if rc != 0 or "mismatches" not in s or "evaluations" not in s:   # no #SUMMARY line = the harness process died
            mism.append({"kind": "harness", "case": c, "impl": "pipeline `%s` failed rc=%s" % (c, rc), "expected": out[-800:]})
        mism += m
        for k, v in s.items():
            stats[k] = stats.get(k, 0) + v if isinstance(v, int) else v
    return mism, stats


def one(hbin, runner, flags, case):
    rc, out = sh("%s one %s | %s %s" % (hbin, shlex.quote(case), runner, flags), timeout=120)
    m, s, _ = parse_runner_output(out)
    return m, s


def split_impl(m):
    """impl field of a MISMATCH line is class|label|value"""
    parts = m["impl"].split("|", 2)
    cls = parts[0] if parts else "other"
    label = parts[1] if len(parts) > 1 else ""
    val = parts[2] if len(parts) > 2 else ""
    return cls, label, val


def sig_of(m):
    """what differs in a MISMATCH line: the label without its numbers + the index of the first differing `|` field"""
    _, label, val = split_impl(m)
    lab = re.sub(r"[0-9]+", "", label)
    a, b = val.split("|"), m["expected"].split("|")
    i = 0
    while i < len(a) and i < len(b) and a[i] == b[i]:
        i += 1
    return "%s#%d" % (lab, i)


def neighbor_search(hbin, runner, flags, cases, seed, count):
    """Escalated search after a correspondence break: cases near the ones on which code and model differ (harness mode
    `neighbors`), judged by the extracted specification.  Returns (spec/wfq mismatches, stats)."""
    cmds = ["neighbors %s %d %d" % (shlex.quote(c), count, seed * 7 + i) for i, c in enumerate(cases)]
    mism, stats = run_cases(hbin, runner, flags, cmds)
    return [m for m in mism if m["kind"] in ("spec", "wfq")], stats


def run(tier, seed, replay=None):
    res = Result("C04", tier, seed, "proof")
    thm = check_theorems("C04")
    proof_coverage(res, thm, "make -C coq props/C04.vo (coqc 8.16.1, full .vo build) + Print Assumptions", BASE_TRUST + [
        "models of pest/src/iterators/{pairs,pair,flat_pairs,tokens,pairs_builder,line_index}.rs written by hand (coq/Iter/Model.v): "
        "Vec as list, every index / unreachable! / usize subtraction / unwrap / slice / assert an explicit Panic branch",
        "the runner's rendering of serde_json::to_string_pretty and of `{:?}` on str (outside pest)",
    ])
    rc, out = coq_make(["Extract/IterExtract.vo"])
    if rc != 0:
        thm["ok"] = False
        thm["problems"].append("extraction build failed")
    brc, bout, bdir = harness_build(["c04"])
    build_note = None
    if brc != 0:
        brc2, bout2, bdir2 = harness_build_min()
        if brc2 == 0:
            build_note = ("the shared harness crate does not build against this tree (pest panics at compile time inside pest_derive); "
                          "C04 binary built alone against pest/pest_meta/pest_vm")
            log("C04: " + build_note)
            brc, bdir = 0, bdir2
    if brc != 0:
        res.violation("harness does not build against the repository (correspondence C04 cannot run)",
                      {"theorem_or_correspondence": "C04 correspondence (build)", "log": bout[-3000:]}, no_failing_input=True)
        return res.finish()
    for attempt in range(4):   # ocaml/ is shared: a concurrent build of another runner may clean our object files
        orc, oout, runner = ocaml_build("c04_runner", ["iter_model"])
        if orc == 0:
            break
        time.sleep(1 + attempt)
    if orc != 0:
        res.violation("OCaml runner does not build", {"theorem_or_correspondence": "C04 extraction", "log": oout[-3000:]}, no_failing_input=True)
        return res.finish()
    hbin = os.path.join(bdir, "c04")
    flags, fl = probe(hbin)
    log("C04: implementation state (probe): Pairs::single %s, FlatPairs::len %s, Pairs::to_json %s -> model flags %s" % (
        "repaired" if fl["fix_single"] else "as shipped", "repaired" if fl["fix_flatlen"] else "as shipped",
        "repaired" if fl["fix_json"] else "as shipped", flags))

    if replay:
        rj = json.load(open(replay))
        case = rj.get("case", "")
        m, s = one(hbin, runner, flags, case)
        spec = [x for x in m if x["kind"] in ("spec", "wfq")]
        spec.sort(key=lambda x: 0 if split_impl(x)[0] == rj.get("class") else 1)
        log("replay: %d mismatches (%d against the specification)" % (len(m), len(spec)))
        for x in m[:6]:
            log("  %s %s\n    impl=%s\n    expected=%s" % (x["kind"], x["case"][:200], x["impl"][:400], x["expected"][:400]))
        if spec:
            cls, label, val = split_impl(spec[0])
            res.violation("replayed case still violates the specification (%s at %s)" % (cls, label), {"case": case})
        return res.finish()

    corpus = []
    cpath = os.path.join(ROOT, "corpus", "C04.txt")
    if os.path.exists(cpath):
        corpus = [l.rstrip("\n") for l in open(cpath) if l.strip() and not l.startswith("#")]
    cmds, bounds = plan(tier, seed)
    cmds = ["one %s" % shlex.quote(c) for c in corpus] + cmds
    mism, stats = run_cases(hbin, runner, flags, cmds)

    known = {f.get("class"): f for f in known_findings("C04") if f.get("status") == "known"}
    by = {}
    for m in mism:
        cls = split_impl(m)[0] if m["kind"] in ("spec", "model") else m["kind"]
        by.setdefault((m["kind"], cls), []).append(m)

    reported_spec_classes = set()
    spec_sigs = {}      # (class, what differs) -> shortest case with a property violation of that kind
    for m in mism:
        if m["kind"] == "spec":
            k = (split_impl(m)[0], sig_of(m))
            if k not in spec_sigs or len(m["case"]) < len(spec_sigs[k]["case"]):
                spec_sigs[k] = m
    # differences from the model of the code that are not at a label where the same case violates the specification
    # (those are kind `modelx`: the same failing observation, already reported with its case as a property violation)
    model_groups = {}
    for m in mism:
        if m["kind"] == "model":
            model_groups.setdefault((split_impl(m)[0], sig_of(m)), []).append(m)
    search_cov = {"ran": False}
    for (kind, cls), ms in sorted(by.items()):
        if kind != "spec":
            continue
        worst = min(ms, key=lambda m: len(m["case"]))
        _, label, val = split_impl(worst)
        count = stats.get("spec/" + cls, len(ms))
        desc, coqthm, patch = CLASS_DESC.get(cls, ("an observation of the real iterators differs from the forest specification", None, None))
        rep = {"theorem_or_correspondence": "C04 oracle: impl vs extracted specification (PV.Iter.Spec)" + (", Coq: " + coqthm if coqthm else ""),
               "case": worst["case"], "class": cls, "label": label, "impl": val, "spec": worst["expected"],
               "cases_in_class": count, "suggested_fix": patch,
               "smallest_case_per_stream": {k: min((m["case"] for m in ms if m["case"][:1] == k), key=len)[:600]
                                            for k in sorted(set(m["case"][:1] for m in ms))},
               "model_of_the_code_differs_at_the_same_observation_on": stats.get("modelx/" + cls, 0),
               "correspondence_also_broken_same_kind_of_difference": sorted(
                   "%s on %s" % (sg, min(g, key=lambda m: len(m["case"]))["case"][:200]) for (c2, sg), g in model_groups.items()
                   if c2 == cls and (c2, sg) in spec_sigs)[:6],
               "case_legend": "kind|DFS depth|heavy cap|scripts|input|payload; labels: V<k> views of pair k (pre-order), root/I<k>/G<k> = "
                              "root Pairs / into_inner of pair k / Pairs::single(pair k); .D/.F/.T next-next_back DFS on Pairs/FlatPairs/Tokens "
                              "(len,is_empty,peek per state), .S<i>.<j> views after i next and j next_back: as_str|concat|{}|{:#}|{:?}|json; "
                              "V<k> fields: rule,tag|span|as_str|line_col|{}|{:#}|{:?}|json|tokens, line_col `l,c!POSl2,c2` = Pair::line_col differs from "
                              "as_span().start_pos().line_col(); .alt = `way:pair:rule,tag|span|as_str|line_col` for every pair that shows other views when "
                              "reached by flatten (f), flatten().rev() (fb), rev() (b), peek (p), flatten().next_back() (fl), find_tagged (t, t1) than when "
                              "reached by next + into_inner (empty = all agree)"}
        if cls in known:
            res.known_finding("class=%s witness=%s (%d cases)" % (cls, worst["case"][:160], count))
        else:
            reported_spec_classes.add(cls)
            head = "an observation of the real iterators differs from the forest specification"
            if coqthm:
                head += " (class `%s`; the shipped code has this defect in that class: %s)" % (cls, desc)
            res.violation("%s; smallest case %s, label %s: impl `%s` vs spec `%s` (%d cases in this class)" % (
                head, worst["case"], label, val[:120], worst["expected"][:160], count), rep)
    for (kind, cls), ms in sorted(by.items()):
        if kind == "spec":
            continue
        worst = min(ms, key=lambda m: len(m["case"]))
        if kind == "modelx":
            continue
        if kind == "model":
            if cls in reported_spec_classes and cls != "other":
                continue
            groups = sorted(((sg, g) for (c2, sg), g in model_groups.items() if c2 == cls), key=lambda x: x[0])
            for sg, g in groups:
                worst = min(g, key=lambda m: len(m["case"]))
                _, label, val = split_impl(worst)
                if (cls, sg) in spec_sigs and cls not in known:
                    # the same kind of difference (same view, same field) violates the specification on another case of this
                    # run: that case is the failing input (reported above); nothing more to search
                    log("C04: correspondence break at %s (%s) on %s: the same observation violates the specification on %s" % (
                        label, sg, worst["case"][:120], spec_sigs[(cls, sg)]["case"][:120]))
                    continue
                # escalate: search near the differing cases for one that the specification judges
                starts = [m["case"] for m in sorted(g, key=lambda m: len(m["case"]))[:3]]
                count = 1500 if tier == "quick" else 12000
                found, nstats = neighbor_search(hbin, runner, flags, starts, seed, count)
                search_cov = {"ran": True, "start_cases": search_cov.get("start_cases", 0) + len(starts),
                              "cases_tried": search_cov.get("cases_tried", 0) + nstats.get("cases", 0),
                              "found": search_cov.get("found", 0) + (1 if found else 0)}
                found = [m for m in found if not (m["kind"] == "spec" and split_impl(m)[0] in known)]
                if found:
                    w = min(found, key=lambda m: len(m["case"]))
                    if w["kind"] == "spec":
                        c3, l3, v3 = split_impl(w)
                        res.violation("correspondence broken: the real iterators differ from coq/Iter/Model.v (flags %s) at %s on case %s (impl `%s` vs model `%s`); "
                                      "the search around that case (%d cases) found a property violation: case %s, label %s: impl `%s` vs spec `%s`" % (
                                          flags, label, worst["case"][:200], val[:100], worst["expected"][:100], nstats.get("cases", 0),
                                          w["case"], l3, v3[:120], w["expected"][:160]),
                                      {"theorem_or_correspondence": "C04 oracle: impl vs extracted specification (PV.Iter.Spec), found by the search around a "
                                                                    "correspondence break (impl vs extracted PV.Iter.Model)",
                                       "case": w["case"], "class": c3, "label": l3, "impl": v3, "spec": w["expected"],
                                       "correspondence_break": {"case": worst["case"], "label": label, "impl": val, "model": worst["expected"]},
                                       "searched": nstats})
                    else:
                        res.violation("correspondence broken at %s on case %s; the search around it found a successful parse whose token stream is not a "
                                      "well-formed queue: %s" % (label, worst["case"][:200], w["case"][:300]),
                                      {"theorem_or_correspondence": "C04 first sentence: extracted wfqb on the token queue of a real parse result",
                                       "case": w["case"], "class": "other", "impl": w["impl"], "spec": w["expected"], "searched": nstats})
                    continue
                res.violation("correspondence broken: the real iterators differ from coq/Iter/Model.v (flags %s) at %s on case %s: impl `%s` vs model `%s`; "
                              "no disagreement with the specification was found for this kind of difference (%s), neither in the run nor among %d cases "
                              "generated around the differing ones" % (flags, label, worst["case"], val[:120], worst["expected"][:160], sg, nstats.get("cases", 0)),
                              {"theorem_or_correspondence": "C04 correspondence: impl vs extracted PV.Iter.Model", "case": worst["case"],
                               "label": label, "impl": val, "model": worst["expected"], "searched": stats, "searched_around": nstats},
                              no_failing_input=True)
        elif kind == "wfq":
            # one failing input per kind of source (generated grammar / closure tree / fixed grammar), the shortest each
            groups = {}
            for m in ms:
                src0 = m["case"].split("|", 5)[-1].split("#")[0][:3]
                if src0 not in groups or len(m["case"]) < len(groups[src0]["case"]):
                    groups[src0] = m
            for src0, w in sorted(groups.items()):
                src = w["case"].split("|", 5)[-1].split("#")[0]
                inp = w["case"].split("|", 5)[4] if w["case"].count("|") >= 5 else ""
                what = src
                if src.startswith("vg:"):
                    try:
                        what = "pest_vm grammar `%s`, start rule r0" % bytes.fromhex(src[3:]).decode("utf-8").strip().replace("\n", " ")
                    except ValueError:
                        pass
                elif src.startswith("pp:"):
                    what = "ParserState closure tree %s" % src[3:]
                raw = w["case"].rsplit("#", 1)[-1]
                res.violation("a SUCCESSFUL parse returned a token stream that is not a well-formed queue (wfqb = false; %d such parses in this run): %s on input `%s` "
                              "yields %s" % (stats.get("wfq/other", len(ms)), what, inp, raw[:300]),
                              {"theorem_or_correspondence": "C04 first sentence (exec_preserves_wfq): extracted wfqb on the token queue of a real parse result",
                               "case": w["case"], "class": "other", "source": what, "input": inp, "token_stream": raw,
                               "stream_legend": "S<pos> / E<rule>.<tag>.<pos> as Tokens yields them; s<end idx>.<pos> / e<start idx>.<rule>.<tag>.<pos> = the real queue with cross-links",
                               "impl": w["impl"], "spec": w["expected"]})
        elif kind == "thm":
            res.violation("extracted machines disagree with the extracted list machine on a well-formed queue (contradicts the proved refinement: "
                          "runner or extraction fault): %s %s" % (worst["case"], worst["impl"]),
                          {"theorem_or_correspondence": "C04 internal consistency", "case": worst["case"], "impl": worst["impl"]}, no_failing_input=True)
        else:
            res.violation("harness failure: " + worst["impl"], {"theorem_or_correspondence": "C04 correspondence (run)", "log": worst["expected"]},
                          no_failing_input=True)
    if tier != "quick" and thm["ok"]:
        crc, cout = coqchk("C04")
        res.coverage["coqchk"] = "ok" if crc == 0 else "FAILED"
        if crc != 0:
            thm["ok"] = False
            thm["problems"].append("coqchk rejected PV.props.C04")
            thm["log"] = cout
    if not thm["ok"]:
        res.violation("proof obligation no longer checks: " + "; ".join(thm["problems"]),
                      {"theorem_or_correspondence": "coq/props/C04.v", "log": thm["log"][-3000:]},
                      no_failing_input=not reported_spec_classes)

    res.coverage.update({
        "evaluations": stats.get("evaluations", 0),
        "distinct_nontrivial": stats.get("distinct_nontrivial", 0),
        "rule": bounds + "; random PairsBuilder forests of 5-30/40 nodes with random scripts over next/next_back/len/peek of length <= 40; "
                "random PairsBuilder call sequences: bad spans and tag-before-rule, unordered boundary spans, and well-formed trees up to depth 4; "
                "input texts of the builder / closure-tree runs over x y U+00E9 U+4F60 U+1F388 double-quote and the line breaks \\n, \\r\\n, lone \\r "
                "(the exhaustive forests alternate between two fixed texts, one with every line-break kind incl. positions between \\r and \\n; "
                "one random forest in three lies over a text of many short lines); pest_vm parses of 6 small grammars (one of lines separated by "
                "every line-break kind) on all inputs up to a length bound; pest_vm on GENERATED grammars (3-5 rules of all five types calling each other, nested positive/negative look-aheads "
                "around rule references, repetitions with a trailing mismatch, choices whose first alternative fails late, !{}/${} inside @{}, "
                "token-emitting WHITESPACE/COMMENT) on all inputs up to length 5/6 over {x,y,space} - one grammar in three has a WHITESPACE of two of "
                "{space, \\r\\n, \\n, \\r} and all inputs over x, y and these two, one shorter -, one case per distinct token stream; random "
                "ParserState closure trees: own generator (rule/sequence/repeat/optional/lookahead/tag_node) and pvharness::prog::gen plus a token-"
                "oriented generator (depth <= 7; the REAL queue incl. cross-links is read with verif_dump and checked with the extracted wfqb). One evaluation = one tree with the "
                "full observation (per-pair views, and per Pairs value - root, every into_inner, every single - the DFS on Pairs/FlatPairs/Tokens, the "
                "canonical-state string views, find_tagged; label .alt: rule/tag/span/as_str/line_col of every pair reached by flatten, flatten().rev(), "
                "rev(), peek, find_tagged compared in the harness with the same pair reached by next + into_inner; line_col of every pair also compared "
                "with as_span().start_pos().line_col()). After a difference from the model of the code that is no difference from the specification on the "
                "same case and observation, nor the same kind of difference as a property violation elsewhere in the run: search around the differing "
                "cases (harness mode neighbors; see search_after_correspondence_break for what it covered when it ran). non-trivial = distinct case whose forest has nesting depth >= 2 and a sibling list of "
                "length >= 2 (builder), >= 3 pairs (parses), >= 2 calls (call sequences)",
        "exhaustive": True,
        "exhaustive_bound": bounds + " (the theorems are unbounded)",
        "samples": ["B|7|6||x\\u00e9y...|0.-.0.9[1.-.1.3[]]1.0.9.10[]", "P|4|3||xy\\u00e9|vm:0#a,b,c,EOI#S0,S1,E1.-.2,S2,S2,E2.-.4,E1.-.4,E0.-.4",
                    "X|1|1||xy|W 0 0 2 ( R 1 0 1 T 0 ) T 1"] + corpus[:3],
        "runner_cases": stats.get("cases", 0),
        "mismatches": len(mism),
        "implementation_state": fl,
        "build_note": build_note,
        "real_parses": {k: stats.get(k, 0) for k in ("grammars", "rejected", "parses", "ok_parses", "programs_tried", "ok_runs")},
        "classes": {k: v for k, v in stats.items() if "/" in str(k)},
        "search_after_correspondence_break": search_cov,
    })
    res.assumptions = ["input alphabet of the differential runs: x y a b U+00E9 U+4F60 U+1F388 \\n \\r\\n \\r double-quote space ( ) - the theorems are for arbitrary byte strings",
                       "rules and tags are numeric ids in the model, 3 rules / 3 tags in the runs",
                       "harness built with debug-assertions and overflow-checks (so debug_assert!/usize underflow panic as modelled)"]
    return res.finish()
