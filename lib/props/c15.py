"""C15 - detailed error tracking is observationally transparent."""
from common import *

META = {
    "property_id": "C15",
    "level": "proof",
    "technique": "Coq proof by simulation (induction on fuel of the executable model of parser_state.rs, relation `equal after erasing the "
                 "five ParseAttempts fields`), an invariant reduction for max_position instantiated with the UTF-8 boundary invariant, and a "
                 "total model of the help-message construction composed with C10's model of Error::new_from_pos/Display; model tied to the "
                 "code by differential runs of the extracted model (state dump, state() outcome and the help text verbatim) and the property "
                 "itself checked directly on the real code by running every case with set_error_detail(false) and (true)",
    "text": "Theorem C15_detail_transparent (coq/props/C15.v, closed under the global context), for every configuration, closure environment, "
            "program (deep embedding of the ParserState closures a generated parser or the VM builds), state and fuel: the run with error detail "
            "on and the run with it off end in the same kind of result (Ok/Err/the same panic/out of fuel) and in states equal on everything but "
            "the five ParseAttempts fields; pest::state() returns the same tokens or the same error position/positives/negatives/call-limit error; "
            "a panic in detail mode is never one of the attempt bookkeeping (splice/index/subtraction) and is exactly the panic of the run without "
            "detail; max_position <= input length always; for valid UTF-8 input and string constants (they are &str in Rust) max_position is a char "
            "boundary and Error::parse_attempts_error builds its error and the error renders, for every pair of callbacks. "
            "C15_max_position_reduction: if exec keeps the position on a boundary then max_position is on one (general form "
            "max_position_boundary_from_invariant).",
    "note": "Trusted: Coq kernel; extraction (ExtrOcamlBasic only); harness/runner; the hand-written model (coq/Comb/*.v) as validated by the "
            "correspondence; Vec/BTreeSet/BTreeMap/format!/join by their documented meaning; str::to_uppercase and the two user callbacks are "
            "parameters (total functions); the VM-to-closure-tree compilation is exercised by the oracle runs only (grammars through pest_vm), "
            "its model belongs to C01/C02.",
    "design_ref": "DESIGN.md section 3, C15",
    "coq_targets": ["props/C15.vo", "Extract/DetailExtract.vo"],
    "bins": ["c15"],
}

SAMPLES = [
    "lim=- det=1 in=6163 env=- prog=(rule 0 (else (rule 1 (seq (then (str 61) (str 62)))) (rule 3 (then (str 61) (ins c3a9)))))",
    "lim=- det=1 in=c3a961 env=- prog=(then (str c3a9) (look ! (rule 1 (str 61))))",
    "lim=- det=1 in=61 env=- prog=(rule 4 (else (rule 0 (str 62)) (else (rule 1 (str 62)) (else (rule 2 (ins 62)) (else (rule 3 (range 98 98)) (rule 0 (cls 65 90)))))))",
    "lim=5 det=1 in=6161 env=- prog=(rep (seq (then (str 61) (rule 1 (opt (str 62))))))",
]


def q(s):
    return "'" + s.replace("'", "'\\''") + "'"


def run_cases(hbin, runner, cmds, timeout=3000):
    outs = run_pipeline(["%s %s | %s" % (hbin, c, runner) for c in cmds], timeout=timeout)
    mism, stats = [], {}
    for (rc, out), c in zip(outs, cmds):
        m, s, other = parse_runner_output(out)
        if rc != 0 or "mismatches" not in s or "evaluations" not in s:
            mism.append({"kind": "harness", "case": c, "impl": "pipeline failed rc=%s" % rc, "expected": out[-500:]})
        mism += m
        for k, v in s.items():
            stats[k] = stats.get(k, 0) + v if isinstance(v, int) else v
    return mism, stats


def is_vm(case):
    return case.startswith("VM ")


def contracts(hbin, case, mode=None):
    """Run one case on the real code (both detail settings); the oracle's complaints."""
    mode = mode or ("vmone" if is_vm(case) else "one")
    rc, out = sh("%s %s %s" % (hbin, mode, q(case)), timeout=120)
    res = []
    for line in out.split("\n"):
        if line.startswith("CONTRACT\t"):
            parts = line.split("\t")
            res.append((parts[1] if len(parts) > 1 else "", parts[2] if len(parts) > 2 else ""))
    return res


# ---- shrinking of a failing case (oracle violations only) ----
def tokenize(s):
    return s.replace("(", " ( ").replace(")", " ) ").split()


def parse_sexp(toks, i=0):
    if toks[i] != "(":
        return toks[i], i + 1
    i += 1
    node = []
    while toks[i] != ")":
        sub, i = parse_sexp(toks, i)
        node.append(sub)
    return node, i + 1


def show_sexp(n):
    return n if isinstance(n, str) else "(" + " ".join(show_sexp(x) for x in n) + ")"


PROG_HEADS = {"rule": 2, "seq": 1, "rep": 1, "opt": 1, "look": 2, "atomic": 2, "push": 1, "roe": 1, "then": 1, "else": 1, "ifna": 1}


def prog_children(n):
    if isinstance(n, str) or not n or n[0] not in PROG_HEADS:
        return []
    return list(range(PROG_HEADS[n[0]], len(n)))


def variants(n):
    """smaller programs: a node replaced by one of its sub-programs, or by ok / err"""
    out = []
    if isinstance(n, str):
        return out
    for i in prog_children(n):
        out.append(n[i])
    if n and n[0] in PROG_HEADS:
        out += ["ok", "err"]
        for i in prog_children(n):
            for v in variants(n[i]):
                out.append(n[:i] + [v] + n[i + 1:])
    return out


def split_case(case):
    ki, ke, kp = case.find(" in="), case.find(" env="), case.find(" prog=")
    return case[:ki], case[ki + 4:ke], case[ke + 5:kp], case[kp + 6:]


def hex_inputs_smaller(h):
    if h == "-":
        return []
    s = bytes.fromhex(h).decode("utf-8", "replace")
    out = []
    for i in range(len(s)):
        t = s[:i] + s[i + 1:]
        out.append(t.encode("utf-8").hex() if t else "-")
    return out


def minimise(hbin, case, budget=400):
    if is_vm(case):
        body = case[3:]
        ki, kg = body.find(" in="), body.find(" g=")
        head, inp, g = body[:ki], body[ki + 4:kg], body[kg + 3:]
        improved = True
        while improved and budget > 0:
            improved = False
            for h in hex_inputs_smaller(inp):
                budget -= 1
                cand = "VM %s in=%s g=%s" % (head, h, g)
                if contracts(hbin, cand):
                    inp, improved = h, True
                    break
        return "VM %s in=%s g=%s" % (head, inp, g)
    head, inp, env, prog = split_case(case)
    tree, _ = parse_sexp(tokenize(prog))
    improved = True
    while improved and budget > 0:
        improved = False
        for h in hex_inputs_smaller(inp):
            budget -= 1
            if contracts(hbin, "%s in=%s env=%s prog=%s" % (head, h, env, show_sexp(tree))):
                inp, improved = h, True
                break
        if improved:
            continue
        for v in variants(tree):
            budget -= 1
            if budget <= 0:
                break
            if contracts(hbin, "%s in=%s env=%s prog=%s" % (head, inp, env, show_sexp(v))):
                tree, improved = v, True
                break
    return "%s in=%s env=%s prog=%s" % (head, inp, env, show_sexp(tree))


def describe(case):
    if is_vm(case):
        body = case[3:]
        ki, kg = body.find(" in="), body.find(" g=")
        try:
            return "grammar [%s] %s input %r" % (bytes.fromhex(body[kg + 3:]).decode("utf-8", "replace").strip().replace("\n", " ; "), body[:ki],
                                                 bytes.fromhex(body[ki + 4:kg] if body[ki + 4:kg] != "-" else "").decode("utf-8", "replace"))
        except ValueError:
            return case
    head, inp, env, prog = split_case(case)
    try:
        txt = bytes.fromhex(inp if inp != "-" else "").decode("utf-8", "replace")
    except ValueError:
        txt = inp
    return "closure tree %s%s on input %r (%s)" % (prog, "" if env == "-" else " with closures " + env, txt, head.replace(" det=1", "").replace(" det=0", ""))


def run(tier, seed, replay=None):
    res = Result("C15", tier, seed, "proof")
    thm = check_theorems("C15")
    proof_coverage(res, thm, "make -C coq props/C15.vo (coqc 8.16.1, full .vo build) + Print Assumptions", BASE_TRUST + [
        "model of pest/src/parser_state.rs + position.rs written by hand (coq/Comb/PState.v, Bytes.v, Prog.v, Exec.v; validated by the Layer-C "
        "correspondence) and of the help-message part of error.rs (coq/Comb/Help.v); C10's model of Error::new_from_pos/Display (coq/Pos/ErrorFmt.v)",
        "UTF-8 boundary theory coq/Comb/Utf8*.v (exec_boundary) and the frame theorem coq/Comb/Frame.v (exec_post), both closed under the global context",
    ])
    rc, out = coq_make(["Extract/DetailExtract.vo"])
    if rc != 0:
        thm["ok"] = False
        thm["problems"].append("extraction build failed: " + out[-400:])
    if tier == "thorough" and thm["ok"]:
        crc, cout = coqchk("C15", timeout=1200)
        res.coverage["coqchk"] = "ok" if crc == 0 else "rc=%d %s" % (crc, cout[-300:])
        if crc not in (0, 124):
            thm["ok"] = False
            thm["problems"].append("coqchk failed: " + cout[-500:])
    brc, bout, bdir = harness_build(["c15"])
    if brc != 0:
        res.violation("harness does not build against the repository (correspondence C15 cannot run)",
                      {"theorem_or_correspondence": "C15 correspondence (build)", "log": bout[-3000:]}, no_failing_input=True)
        return res.finish()
    orc, oout, runner = ocaml_build("c15_runner", ["c15_model"])
    if orc != 0:
        res.violation("OCaml runner does not build", {"theorem_or_correspondence": "C15 extraction", "log": oout[-3000:]}, no_failing_input=True)
        return res.finish()
    hbin = os.path.join(bdir, "c15")

    if replay:
        case = json.load(open(replay)).get("case", "")
        mode = "vmone" if is_vm(case) else "one"
        rc, out = sh("%s %s %s | %s" % (hbin, mode, q(case), runner), timeout=120)
        m, s, _ = parse_runner_output(out)
        for x in m:
            log("  %s case=%s impl=%s expected=%s" % (x["kind"], x["case"][:300], x["impl"][:600], x["expected"][:600]))
        spec = [x for x in m if x["kind"] == "spec"]
        log("replay %s: oracle-violation=%s model-disagreement=%s" % (describe(case)[:300], bool(spec), any(x["kind"] == "model" for x in m)))
        if spec:
            res.violation("replayed case still violates the property: " + spec[0]["impl"], {"case": case, "impl": spec[0]["impl"]})
        return res.finish()

    corpus = []
    cpath = os.path.join(ROOT, "corpus", "C15.txt")
    if os.path.exists(cpath):
        corpus = [l.rstrip("\n") for l in open(cpath) if l.strip() and not l.startswith("#")]
    cmds = [("vmone " if is_vm(c) else "one ") + q(c) for c in corpus + SAMPLES]
    shards = max(4, min(NPROC, 16))
    if tier == "quick":
        small_len = 2
        cmds += ["small 2 %d %d" % (k, 4) for k in range(4)]
        cmds += ["targeted %d %d" % (k, 2) for k in range(2)]
        cmds += ["random 5000 %d 5" % (seed * 1000 + i) for i in range(shards)]
        cmds += ["vm 4000 %d" % (seed * 1000 + 500 + i) for i in range(4)]
        cmds += ["big 1500 %d" % (seed * 1000 + 700 + i) for i in range(4)]
    else:
        small_len = 3
        cmds += ["small 3 %d %d" % (k, shards) for k in range(shards)]
        cmds += ["targeted %d %d" % (k, 4) for k in range(4)]
        cmds += ["random 60000 %d 6" % (seed * 1000 + i) for i in range(shards)]
        cmds += ["vm 60000 %d" % (seed * 1000 + 500 + i) for i in range(shards)]
        cmds += ["big 20000 %d" % (seed * 1000 + 700 + i) for i in range(shards)]
    mism, stats = [], {}
    for i in range(0, len(cmds), NPROC):
        m, s = run_cases(hbin, runner, cmds[i:i + NPROC])
        mism += m
        for k, v in s.items():
            stats[k] = stats.get(k, 0) + v if isinstance(v, int) else v

    spec_m = [m for m in mism if m["kind"] == "spec"]
    model_m = [m for m in mism if m["kind"] == "model"]
    other_m = [m for m in mism if m["kind"] not in ("spec", "model")]
    found = None
    if not spec_m and model_m:
        # failing-input search in the neighbourhood of the disagreement: the same closure trees on every short input
        searched = 0
        for mm in sorted(model_m, key=lambda m: len(m["case"]))[:8]:
            cs = contracts(hbin, mm["case"], mode="around")
            searched += 1
            if cs:
                found = {"kind": "spec", "case": min((c for c, _ in cs), key=len), "impl": cs[0][1], "expected": ""}
                for c, msg in cs:
                    if c == found["case"]:
                        found["impl"] = msg
                        break
                break
        stats["neighbourhood_searches"] = searched
        if found:
            spec_m = [found]
    if spec_m:
        worst = min(spec_m, key=lambda m: (len(m["case"]), m["case"]))
        small = minimise(hbin, worst["case"])
        msgs = [msg for _, msg in contracts(hbin, small)] or [worst["impl"]]
        res.violation("error detail is not transparent on the real code: %s: %s" % (describe(small), "; ".join(msgs)[:600]),
                      {"theorem_or_correspondence": "C15 oracle: pest run with set_error_detail(false) vs (true)", "case": small, "impl": msgs,
                       "minimised_from": worst["case"], "other_failing_cases": [m["case"] for m in spec_m[:10]],
                       "legend": "case = lim=<call limit|-> det in=<hex input> env=<closures> prog=<closure tree>; grammar cases: VM rule=<r> in=<hex> g=<hex grammar text>"})
    elif model_m:
        worst = min(model_m, key=lambda m: (len(m["case"]), m["case"]))
        res.violation("correspondence broken: pest differs from the model coq/Comb/Exec.v + Help.v on %s, but the run with and without error detail "
                      "still agree on every case tried (%d evaluations and the neighbourhood of the disagreements)" % (describe(worst["case"]), stats.get("evaluations", 0)),
                      {"theorem_or_correspondence": "C15 correspondence: impl vs extracted Comb.Exec/Comb.Help/Pos.ErrorFmt", "case": worst["case"],
                       "impl": worst["impl"], "model": worst["expected"], "searched": stats}, no_failing_input=True)
    for m in other_m:
        res.violation("harness failure: " + m["impl"], {"theorem_or_correspondence": "C15 correspondence (run)", "case": m["case"], "log": m["expected"]},
                      no_failing_input=True)
    if not thm["ok"]:
        res.violation("proof obligation no longer checks: " + "; ".join(thm["problems"]),
                      {"theorem_or_correspondence": "coq/props/C15.v", "log": thm["log"][-3000:]}, no_failing_input=not spec_m)

    res.coverage.update({
        "evaluations": stats.get("evaluations", 0),
        "distinct_nontrivial": stats.get("distinct_nontrivial", 0),
        "rule": "every case is run on the real code with set_error_detail(false) and (true) (evaluations counts runs). Closure trees: all trees of the "
                "shapes wrapper(leaf then/else leaf), wrapper(wrapper(leaf)), rule-alternatives over 9 leaves and 8 wrappers (rule, sequence, optional, "
                "both look-aheads, atomic, repeat) x all inputs of length <= %d over {a, b, e-acute, B}; random trees of depth <= 5-6 (prog generators of "
                "pvharness::prog plus rule/alternative-biased ones, wide alternatives of 2-6 failing rules around CALL_STACK_CHILDREN_THRESHOLD, stack "
                "ops, call limits, inputs with newlines and > 9 lines); enumerated and random `wide choice of rules under nested rules` (0-3 attempts "
                "already recorded, 1-3 enclosing rules, 2-6 failing rule alternatives, all at one position) and stack-slice matching (2-3 pushed "
                "literals, stack_match_peek / peek_slice / match_pop as alternative or under optional / repeat / look-ahead, inputs matching every "
                "prefix of the stack in both orders), the same two families as grammars (PUSH ~ PUSH ~ PEEK_ALL | PEEK[a..b] ...); big choices beyond every capacity / threshold "
                "constant of the attempt bookkeeping (15-70 alternatives at one position: bare tokens, rules around a token or a sequence, rules around "
                "nested choices of 2-6 or 15-30 such alternatives two levels deep, rule numbers distinct or folded, 0-2 characters consumed first), each "
                "tree run as a closure tree (also against the model) and as a grammar through pest_meta + pest_vm; random grammars of 1-4 rules (all operators, modifiers, PUSH/POP/PEEK, "
                "WHITESPACE) through pest_meta + pest_vm. Compared between the two runs: Ok/Err/panic, final core state, tokens, error "
                "position/positives/negatives (VM: the whole Debug + Display of the error); on the detail run: max_position <= len and char boundary, "
                "parse_attempts_error built and rendered under catch_unwind. Compared with the model: final state incl. call stacks/tokens/max_position, "
                "state() outcome, help message and its rendering verbatim. Non-trivial = detail on, the parse failed or backtracked, call stacks and a "
                "token set recorded; distinct by case text." % small_len,
        "exhaustive": True,
        "exhaustive_bound": "the listed tree shapes x inputs of length <= %d (the theorems are unbounded)" % small_len,
        "samples": SAMPLES[:3] + corpus[:3],
        "runner_cases": stats.get("cases", 0),
        "vm_cases": stats.get("vm_cases", 0),
        "diverged_skipped": stats.get("diverged_skipped", 0),
        "help_rendered": stats.get("help_rendered", 0),
        "outcomes": {k: stats.get(k, 0) for k in ("ok", "err", "panics", "diverged", "grammars_rejected")},
        "oracle_violations": stats.get("oracle_violations", 0),
        "mismatches": len(mism),
    })
    res.assumptions = ["rule type u32 for closure trees (Ord = numeric order), &str for the VM", "callbacks fixed in the runs: rule 2 / r2 has no message; \"b\" and \" \" are whitespace",
                       "inputs and string constants are valid UTF-8 (Rust &str); Insensitive tokens over {a, b, e-acute, B} so that to_uppercase is the ASCII/Latin-1 map of the runner",
                       "the model's answer on non-terminating closure trees is not recomputed here (C03's correspondence does)"]
    return res.finish()
