"""Shared machinery of the /verif check driver.

Every property check goes through the same steps (DESIGN.md section 1.4):
  1. regenerate coq/gen/* from /repo (translators), build the Coq targets of the property;
  2. audit (forbidden vernacular; Print Assumptions allowlist);
  3. build the Rust harness from /repo's working tree (cfg pest_parser_pest_verif);
  4. run harness | extracted-OCaml runner (correspondence + specification oracle);
  5. consult known_findings.json, print KNOWN-FINDING / VIOLATION lines, write evidence.
"""
import glob
import hashlib
import json
import os
import re
import subprocess
import sys
import time

ROOT = os.path.dirname(os.path.dirname(os.path.abspath(__file__)))
REPO = os.environ.get("VERIF_REPO", "/repo")
COQ = os.path.join(ROOT, "coq")
OCAML = os.path.join(ROOT, "ocaml")
HARNESS = os.path.join(ROOT, "rust", "harness")
TARGET = os.path.join(ROOT, "rust", "target")
# evidence of runs against a scratch copy (VERIF_REPO, used to try seeded changes) never replaces the evidence of /repo itself
EVIDENCE = os.path.join(ROOT, "evidence") if REPO == "/repo" else os.path.join(ROOT, "build", "evidence-scratch")
REPLAYS = os.path.join(ROOT, "replays")
BUILD = os.path.join(ROOT, "build")
NPROC = os.cpu_count() or 4
HOOK_CFG = "pest_parser_pest_verif"

AXIOM_ALLOWLIST = {
    # standard-library axioms that may appear (each is named in the trusted base when it does)
    "functional_extensionality_dep", "proof_irrelevance", "classic", "JMeq_eq", "Eqdep.Eq_rect_eq.eq_rect_eq",
    "eq_rect_eq", "propositional_extensionality",
}

FORBIDDEN = re.compile(
    r"\b(Admitted|admit|Axiom|Axioms|Parameter|Parameters|Conjecture|Conjectures|Admit Obligations|"
    r"Unset Guard Checking|Unset Positivity Checking|Unset Universe Checking|bypass_check|"
    r"type-in-type|impredicative-set)\b")
SECTION_VAR = re.compile(r"^\s*(Variable|Variables|Hypothesis|Hypotheses|Context)\b")


def log(msg):
    print(msg, flush=True)


def sh(cmd, timeout=None, cwd=None, env=None, stdin=None):
    """Run a shell command; returns (rc, stdout+stderr)."""
    e = dict(os.environ)
    e["CARGO_NET_OFFLINE"] = "true"
    if env:
        e.update(env)
    try:
        p = subprocess.run(cmd, shell=True, cwd=cwd or ROOT, env=e, timeout=timeout,
                           stdout=subprocess.PIPE, stderr=subprocess.STDOUT, input=stdin)
        return p.returncode, p.stdout.decode("utf-8", "replace")
    except subprocess.TimeoutExpired as ex:
        out = ex.stdout.decode("utf-8", "replace") if ex.stdout else ""
        return 124, out + "\n[timeout after %ss]" % timeout


def write_if_changed(path, content):
    try:
        with open(path) as f:
            if f.read() == content:
                return False
    except FileNotFoundError:
        pass
    os.makedirs(os.path.dirname(path), exist_ok=True)
    with open(path, "w") as f:
        f.write(content)
    return True


# ---------------------------------------------------------------------------------------------
# Coq
# ---------------------------------------------------------------------------------------------

def coq_project():
    """(Re)write coq/_CoqProject from the .v files present and refresh the Makefile."""
    files = sorted(os.path.relpath(p, COQ) for p in glob.glob(os.path.join(COQ, "**", "*.v"), recursive=True))
    content = "-Q . PV\n-arg -w -arg -notation-overridden,-deprecated-hint-without-locality,-deprecated-instance-without-locality\n" + "\n".join(files) + "\n"
    changed = write_if_changed(os.path.join(COQ, "_CoqProject"), content)
    if changed or not os.path.exists(os.path.join(COQ, "Makefile")):
        rc, out = sh("coq_makefile -f _CoqProject -o Makefile", cwd=COQ, timeout=120)
        if rc != 0:
            raise RuntimeError("coq_makefile failed:\n" + out)


def coq_make(targets, timeout=1500):
    """Full .vo build (never -vos/-vok) of the given targets (paths relative to coq/)."""
    coq_project()
    os.makedirs(os.path.join(OCAML, "gen"), exist_ok=True)
    rc, out = sh("timeout %d make -j%d %s" % (timeout, NPROC, " ".join(targets)), cwd=COQ, timeout=timeout + 30)
    return rc, out


def coq_deps(vfile):
    """Transitive PV.* dependencies (as .v paths relative to coq/) of a .v file, itself included."""
    seen = []
    todo = [vfile]
    while todo:
        f = todo.pop()
        if f in seen or not os.path.exists(os.path.join(COQ, f)):
            continue
        seen.append(f)
        txt = open(os.path.join(COQ, f)).read()
        for m in re.finditer(r"\bPV\.([A-Za-z0-9_.]+)", txt):
            name = m.group(1).rstrip(".")
            todo.append(name.replace(".", "/") + ".v")
    return seen


def strip_comments(txt):
    out = []
    depth = 0
    i = 0
    while i < len(txt):
        if txt.startswith("(*", i):
            depth += 1
            i += 2
        elif txt.startswith("*)", i) and depth > 0:
            depth -= 1
            i += 2
        else:
            if depth == 0:
                out.append(txt[i])
            elif txt[i] == "\n":
                out.append("\n")
            i += 1
    return "".join(out)


def audit(vfiles):
    """Forbidden vernacular in the dependency closure; Variable/Hypothesis outside a Section."""
    problems = []
    for f in vfiles:
        txt = strip_comments(open(os.path.join(COQ, f)).read())
        depth = 0
        for ln, line in enumerate(txt.split("\n"), 1):
            if re.match(r"^\s*(Section|Module Type)\b", line):
                depth += 1
            elif re.match(r"^\s*End\b", line) and depth > 0:
                depth -= 1
            m = FORBIDDEN.search(line)
            if m:
                problems.append("%s:%d: forbidden `%s`" % (f, ln, m.group(1)))
            if depth == 0 and SECTION_VAR.match(line):
                problems.append("%s:%d: Variable/Hypothesis/Context outside a Section" % (f, ln))
    return problems


def check_theorems(prop_id, timeout=1500):
    """Rebuild coq/props/<id>.v (always re-run, so that its Print Assumptions output is fresh),
    return a dict: {ok, log, theorems:[{name, assumptions:[...], closed:bool}], problems:[...]}"""
    pv = "props/%s.v" % prop_id
    res = {"ok": False, "log": "", "theorems": [], "problems": []}
    src_path = os.path.join(COQ, pv)
    if not os.path.exists(src_path):
        res["problems"].append("missing " + pv)
        return res
    for ext in (".vo", ".glob", ".vos", ".vok"):
        try:
            os.remove(src_path[:-2] + ext)
        except FileNotFoundError:
            pass
    rc, out = coq_make([pv + "o"], timeout=timeout)
    res["log"] = out
    if rc != 0:
        res["problems"].append("coq build of %s failed (rc=%d)" % (pv, rc))
        return res
    src = strip_comments(open(src_path).read())
    names = re.findall(r"Print Assumptions\s+([A-Za-z0-9_'.]+)\s*\.", src)
    # split the output into Print Assumptions blocks
    blocks = []
    cur = None
    for line in out.split("\n"):
        if line.startswith("Closed under the global context"):
            blocks.append([])
            cur = None
        elif line.startswith("Axioms:"):
            cur = []
            blocks.append(cur)
        elif cur is not None:
            m = re.match(r"^([A-Za-z0-9_'.]+)\s*:", line)
            if m:
                cur.append(m.group(1))
            elif line.strip() and not line.startswith(" "):
                cur = None
    if len(blocks) != len(names):
        res["problems"].append("Print Assumptions output (%d blocks) does not match %d statements" % (len(blocks), len(names)))
        return res
    for n, b in zip(names, blocks):
        bad = [a for a in b if a.split(".")[-1] not in AXIOM_ALLOWLIST and a not in AXIOM_ALLOWLIST]
        res["theorems"].append({"name": n, "assumptions": b, "closed": not b})
        if bad:
            res["problems"].append("theorem %s depends on non-allowlisted axioms: %s" % (n, ", ".join(bad)))
    deps = coq_deps(pv)
    res["deps"] = deps
    res["problems"] += audit(deps)
    # statements must be pinned: every theorem printed must be stated with a named *_statement
    res["ok"] = not res["problems"]
    return res


def thorough_coqchk(res, prop_id, timeout=2400):
    """Thorough tier: re-check the compiled property file and everything it depends on with coqchk and
    record the axioms it reports (expected: none)."""
    rc, out = coqchk(prop_id, timeout=timeout)
    tail = out[-1500:]
    ok = rc == 0
    res.coverage["coqchk"] = {"ok": ok, "output_tail": tail}
    if not ok:
        res.violation("coqchk rejects the compiled development of %s" % prop_id,
                      {"theorem_or_correspondence": "coqchk PV.props.%s" % prop_id, "log": tail}, no_failing_input=True)
    return ok


def coqchk(prop_id, timeout=1800):
    rc, out = sh("timeout %d coqchk -silent -o -Q . PV PV.props.%s" % (timeout, prop_id), cwd=COQ, timeout=timeout + 30)
    return rc, out


# ---------------------------------------------------------------------------------------------
# Rust harness and OCaml runners
# ---------------------------------------------------------------------------------------------

def harness_dir(crate="harness"):
    """The harness crate to build: rust/<crate> for /repo; for VERIF_REPO=<scratch copy> a shadow
    copy under /tmp whose path dependencies point at the copy (used to try mutants without touching /repo)."""
    if REPO == "/repo":
        return os.path.join(ROOT, "rust", crate), TARGET
    tag = hashlib.sha1(REPO.encode()).hexdigest()[:8]
    root = "/tmp/pvharness-%s" % tag
    for c in ("harness", "harness-nm"):
        d = os.path.join(root, c)
        os.makedirs(d, exist_ok=True)
        src = os.path.join(ROOT, "rust", c)
        toml = open(os.path.join(src, "Cargo.toml")).read().replace('"/repo/', '"%s/' % REPO.rstrip("/"))
        write_if_changed(os.path.join(d, "Cargo.toml"), toml)
        sh("rm -rf %s/src %s/.cargo; [ -d %s/src ] && cp -r %s/src %s/src; cp -r %s/.cargo %s/.cargo; cp %s/Cargo.lock %s/Cargo.lock" %
           (d, d, src, src, d, src, d, REPO, d))
    return os.path.join(root, crate), "/tmp/pvtarget-%s" % tag


def harness_build(bins, features="", timeout=1500, profile="release", crate="harness"):
    """Build harness binaries against the repository's current working tree with the hook cfg on."""
    hdir, target = harness_dir(crate)
    lock_dst = os.path.join(hdir, "Cargo.lock")
    if not os.path.exists(lock_dst):
        sh("cp %s %s" % (os.path.join(REPO, "Cargo.lock"), lock_dst))
    tdir = target + ("-nm" if crate == "harness-nm" else "") + ("-" + features.replace(",", "-") if features else "")
    flags = " ".join("--bin %s" % b for b in bins)
    feat = ("--features " + features) if features else ""
    cmd = "cargo build --%s --offline %s %s 2>&1" % (profile, flags, feat)
    rc, out = sh(cmd, cwd=hdir, timeout=timeout,
                 env={"CARGO_TARGET_DIR": tdir, "RUSTFLAGS": "--cfg %s -Awarnings" % HOOK_CFG})
    return rc, out, os.path.join(tdir, profile)


def ocaml_build(name, gen_modules, extra=(), timeout=600):
    """Compile ocaml/<name>.ml with the extracted modules ocaml/gen/<m>.ml(i) into build/<name>.
    The compilation happens in a private directory so that concurrent checks do not disturb each other."""
    os.makedirs(BUILD, exist_ok=True)
    work = os.path.join(BUILD, "%s.d.%d" % (name, os.getpid()))   # private per process: concurrent checks do not collide
    sh("rm -rf %s && mkdir -p %s" % (work, work))
    files = []
    for m in gen_modules:
        sh("cp gen/%s.mli gen/%s.ml %s/" % (m, m, work), cwd=OCAML)
        files += ["%s.mli" % m, "%s.ml" % m]
    for f in ["runner_common.ml"] + list(extra) + [name + ".ml"]:
        sh("cp %s %s/" % (f, work), cwd=OCAML)
        files.append(os.path.basename(f))
    exe = os.path.join(BUILD, name)
    tmp_exe = os.path.join(work, name + ".exe")
    cmd = "ocamlfind ocamlopt -O2 -w -a -package unix,str -linkpkg %s -o %s 2>&1" % (" ".join(files), tmp_exe)
    rc, out = sh(cmd, cwd=work, timeout=timeout)
    if rc == 0:
        os.replace(tmp_exe, exe)
    sh("rm -rf %s" % work)
    return rc, out, exe


def run_pipeline(cmds, timeout=3600):
    """Run shell pipelines in parallel (list of command strings); returns list of (rc, out)."""
    procs = []
    for c in cmds:
        procs.append(subprocess.Popen(["bash", "-c", "set -o pipefail; " + c], cwd=ROOT, stdout=subprocess.PIPE, stderr=subprocess.STDOUT,
                                      env=dict(os.environ, CARGO_NET_OFFLINE="true")))
    res = []
    deadline = time.time() + timeout
    for p in procs:
        try:
            out, _ = p.communicate(timeout=max(1, deadline - time.time()))
            res.append((p.returncode, out.decode("utf-8", "replace")))
        except subprocess.TimeoutExpired:
            p.kill()
            out, _ = p.communicate()
            res.append((124, out.decode("utf-8", "replace") + "\n[timeout]"))
    return res


def parse_runner_output(out):
    """Collect MISMATCH lines and #KEY\\tk=v summaries from harness|runner output."""
    mism = []
    stats = {}
    other = []
    for line in out.split("\n"):
        if line.startswith("MISMATCH\t"):
            parts = line.split("\t")
            mism.append({"kind": parts[1], "case": parts[2] if len(parts) > 2 else "",
                         "impl": parts[3] if len(parts) > 3 else "", "expected": parts[4] if len(parts) > 4 else ""})
        elif line.startswith("#"):
            parts = line.split("\t")
            for kv in parts[1:]:
                if "=" in kv:
                    k, v = kv.split("=", 1)
                    try:
                        stats[k] = stats.get(k, 0) + int(v)
                    except ValueError:
                        stats[k] = v
        elif line.strip():
            other.append(line)
    return mism, stats, other


# ---------------------------------------------------------------------------------------------
# Findings, violations, evidence
# ---------------------------------------------------------------------------------------------

def known_findings(prop_id):
    path = os.path.join(ROOT, "known_findings.json")
    try:
        allf = json.load(open(path))
    except FileNotFoundError:
        return []
    return [f for f in allf if f.get("property") == prop_id]


class Result:
    """Accumulates what one check run found; prints the interface lines; writes evidence."""

    def __init__(self, prop_id, tier, seed, level):
        self.prop = prop_id
        self.tier = tier
        self.seed = seed
        self.level = level
        self.t0 = time.time()
        self.violations = []   # (replay dict, no_input_found: bool)
        self.known = []
        self.coverage = {}
        self.assumptions = []

    def violation(self, what, replay, no_failing_input=False):
        os.makedirs(REPLAYS, exist_ok=True)
        replay = dict(replay)
        replay.setdefault("property", self.prop)
        replay.setdefault("what", what)
        replay.setdefault("seed", self.seed)
        replay.setdefault("tier", self.tier)
        rc, head = sh("git -C %s rev-parse HEAD 2>/dev/null" % REPO)
        replay.setdefault("repo_head", head.strip())
        h = hashlib.sha1(json.dumps(replay, sort_keys=True).encode()).hexdigest()[:10]
        path = os.path.join(REPLAYS, "%s-%s.json" % (self.prop, h))
        with open(path, "w") as f:
            json.dump(replay, f, indent=1)
        self.violations.append((what, path, no_failing_input))

    def known_finding(self, what):
        self.known.append(what)

    def finish(self):
        for w in self.known:
            log("KNOWN-FINDING: property=%s %s" % (self.prop, w))
        for what, path, nf in self.violations[:20]:
            log("  violation detail: %s" % what[:400])
            log("VIOLATION property=%s replay=%s%s" % (self.prop, path, " no-failing-input-found" if nf else ""))
        ev = {
            "property_id": self.prop,
            "tier": self.tier,
            "seed": self.seed,
            "level": self.level,
            "coverage": self.coverage,
            "assumptions": self.assumptions,
            "wall_s": round(time.time() - self.t0, 2),
            "violations": len(self.violations),
            "known_findings_reported": self.known,
        }
        os.makedirs(EVIDENCE, exist_ok=True)
        with open(os.path.join(EVIDENCE, "%s.json" % self.prop), "w") as f:
            json.dump(ev, f, indent=1)
        log("%s %s: %s (%.1fs)" % (self.prop, self.tier, "VIOLATIONS=%d" % len(self.violations) if self.violations else "ok", time.time() - self.t0))
        return 1 if self.violations else 0


def proof_coverage(res, thm, checker_cmd, trusted_base):
    """Fill the proof-level keys of the evidence from a check_theorems() result."""
    obligations = max(1, len(thm["theorems"])) if thm["theorems"] else 1
    discharged = len(thm["theorems"]) if thm["ok"] else 0
    res.coverage.update({
        "obligations": obligations,
        "discharged": discharged,
        "checker_cmd": checker_cmd,
        "trusted_base": trusted_base,
        "theorems": [{"name": t["name"], "assumptions": t["assumptions"] or "Closed under the global context"} for t in thm["theorems"]],
        "coq_files": thm.get("deps", []),
    })


BASE_TRUST = [
    "Coq 8.16.1 kernel (coqc; vm_compute used, native_compute never)",
    "extraction: ExtrOcamlBasic only (no Extract Constant / Extract Inductive of our own); OCaml 4.13.1 ocamlopt",
    "the correspondence harness (rust/harness), its generators, the OCaml runners and this driver",
    "rustc/cargo and the std/alloc collections as documented",
]
